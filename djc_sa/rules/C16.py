"""C16 — component assets = own class plus bases selected by Media.extend (DESIGN.md section 3, C16).

S1 table agreement of the asset pairs {template, js, css} x {inline, _file} in the five places that enumerate them;
   the exclusivity check visits every pair; suffix handling never uses character-set stripping.
S2 memo purity (access-order independence): media_cache[c] is written only once all selected bases are in the memo,
   'resolved' is judged by the memo alone, and the stored value depends only on c and its bases' memo entries.
S3 `extend` trichotomy True / False / sequence.
"""
from __future__ import annotations

import ast
import re
from typing import Dict, List, Optional, Set, Tuple

from ..astq import assignments, calls, kwarg, local_from, local_from_text, params, stmts
from ..callgraph import fkey
from ..cfg import CFG, cond_atoms
from ..report import Check
from ..source import AnalysisError, Module, Project, ancestors, body_walk, dotted, enclosing_stmt, last_attr, norm, parent, short
from ..state import accesses, inventory

INLINE = {"template", "js", "css"}

_FIXTURE_RSTRIP = "def f(attr):\n    return attr.rstrip('_file')\n"


def run(chk: Check, proj: Project) -> None:
    chk.explanation = (
        "Agreement of the five tables that enumerate the asset pairs, completeness of the mutual-exclusion loop, a lint "
        "for character-set stripping used as suffix removal, purity of the per-class Media memo with respect to the "
        "requested class and the work list (so the result cannot depend on access order), and exhaustiveness of the "
        "extend trichotomy."
    )
    chk.not_decided = ["the resulting file set and order (Django's Media merge)", "behaviour on real files"]
    chk.trusted_base = ["django.forms.widgets.Media.__add__ merges as documented"]
    m = proj.mod("component_media")
    s1(chk, proj, m)
    s2(chk, proj, m)
    s3(chk, proj, m)
    s4(chk, proj, m)
    s5_css_forms(chk, proj, m)
    s6_defined_is_not_none(chk, proj, m)
    s7_declared_collections_not_mutated(chk, proj, m)
    s8_own_media_always_normalised(chk, proj, m)
    s9_css_sequence_forms(chk, proj, m)


def s5_css_forms(chk: Check, proj: Project, m) -> None:
    chk.rule("S5", "every accepted form of Media.css reaches Django's Media as a dict (Django iterates `.items()`): the normalisation leaves no non-dict value behind - in particular not the EMPTY list / tuple / string, which a plain truthiness guard skips")
    f = m.func("_normalize_media")
    chk.analysed(fkey(m, f))
    mp = params(f)[0]
    css = f"{mp}.css"
    guards = [st for st in f.body if isinstance(st, ast.If) and any(pol and t == css for t, pol in [(norm(e), p_) for e, p_ in __import__("djc_sa.cfg", fromlist=["x"]).flatten_conj([(st.test, True)])])]
    if not guards:
        chk.holds("S5", "component_media:_normalize_media:empty-css-forms", m.loc(f), "the css normalisation is not guarded by plain truthiness", nontrivial=False)
        return
    g = guards[0]
    # the forms are normalised wherever attribute lookup FINDS them: a Media class may inherit css / js in a short form from a
    # plain class that was never normalised
    def _own_dict_test(t: ast.expr) -> bool:
        txt = norm(t)
        if "__dict__" in txt or "vars(" in txt:
            return True
        for nm_ in {y.id for y in ast.walk(t) if isinstance(y, ast.Name)}:
            for _s, x in assignments(f, nm_):
                if x is not None and ("__dict__" in norm(x) or norm(x).startswith("vars(")):
                    return True
        return False

    own_only = [st for st in ast.walk(f) if isinstance(st, ast.If) and ("css" in norm(st.test) or "js" in norm(st.test)) and _own_dict_test(st.test)]
    chk.ob("S5", "component_media:_normalize_media:inherited-forms-normalised-too", m.loc(own_only[0]) if own_only else m.loc(g), not own_only,
           "the guards use attribute lookup (hasattr / getattr): inherited short forms are normalised as well" if not own_only else
           f"`if {short(own_only[0].test)}` looks only at what the Media class declares ITSELF: `class Media(SharedAssets)` that inherits `css = \"a.css\"` (or a list, or {{\"print\": \"p.css\"}}) from a plain class keeps the short form - ValueError at class creation, or the string split into characters")
    # an earlier (or else-) statement maps the falsy non-None values to a dict
    fixes = [st for st in ast.walk(f) if isinstance(st, ast.Assign) and norm(st.targets[0]) == css and isinstance(st.value, (ast.Dict, ast.Call)) and (norm(st.value) in ("{}", "dict()"))
             and any((t == css and not pol) or t == f"not {css}" for t, pol in cond_atoms(st))]
    ok = bool(fixes)
    chk.ob("S5", "component_media:_normalize_media:empty-css-forms", m.loc(fixes[0]) if fixes else m.loc(g), ok,
           f"`{short(fixes[0])}` turns the empty forms into a dict; the non-empty ones are normalised under `if {short(g.test)}`" if ok else
           f"`if {short(g.test)}` skips the normalisation for an EMPTY list / tuple / string, which then reaches Django's Media unchanged: `class Media: css = []` makes Component.media raise AttributeError ('list' object has no attribute 'items') when it is read or rendered")


def s4(chk: Check, proj: Project, m) -> None:
    chk.rule("S4", "every class gets its OWN descriptor for every lazy attribute (the descriptor closes over the class); the `resolved` flag is stored only when nothing that can fail or that still fills the record follows")
    f = m.func("_setup_lazy_media_resolve")
    chk.analysed(fkey(m, f))
    cls_p = params(f)[0]
    loops = [x for x in f.body if isinstance(x, ast.For)]
    inst = None
    for lp in loops:
        okf, it = proj.try_fold(m, lp.iter)
        if okf and "media" in set(it):
            inst = lp
    if inst is None:
        chk.undecided("S4", "component_media:_setup_lazy_media_resolve:install-loop", m.loc(f), "loop over COMP_MEDIA_LAZY_ATTRS at function level not found")
    else:
        v = norm(inst.target)
        sets = [c for c in ast.walk(inst) if isinstance(c, ast.Call) and norm(c.func) == "setattr" and len(c.args) == 3 and norm(c.args[0]) == cls_p and norm(c.args[1]) == v]
        direct = [c for c in sets if enclosing_stmt(c) in inst.body]
        jumps = [x for x in ast.walk(inst) if isinstance(x, (ast.Continue, ast.Break, ast.Return))]
        ok = bool(direct) and not jumps
        chk.ob("S4", "component_media:_setup_lazy_media_resolve:own-descriptor-for-every-attr", m.loc(jumps[0]) if jumps else m.loc(inst), ok,
               f"setattr({cls_p}, {v}, <descriptor>) runs for every lazy attribute of every class" if ok else
               "the descriptor is not installed for every lazy attribute of every class: a class that skips it inherits its parent's descriptor, which is bound to the PARENT, so `.media` (or template/js/css) of a class with several bases returns only the nearest ancestor's value")
        # the descriptor resolves against the class being set up, not against the class it is read through
        g = next((x for x in f.body if isinstance(x, ast.FunctionDef)), None)
        if g is not None:
            cs = [c for c in ast.walk(g) if isinstance(c, ast.Call) and last_attr(c.func) in ("_get_comp_cls_media", "_get_comp_cls_attr")]
            okc = len(cs) >= 2 and all(c.args and norm(c.args[0]) == cls_p for c in cs)
            chk.ob("S4", "component_media:_setup_lazy_media_resolve:getter-bound-to-own-class", m.loc(g), okc, f"the getter resolves against `{cls_p}`")
    # sibling agreement between the two lazy getters: both resolve a class's inputs (relative Media paths are rewritten by
    # _resolve_media) before they read them - otherwise what `.media` memoises depends on whether `.template` came first
    ga, gm_ = m.func("_get_comp_cls_attr"), m.func("_get_comp_cls_media")
    res_a = [c for c in calls(ga, "_resolve_media")]
    res_m = [c for c in calls(gm_, "_resolve_media")] + [c for c in calls(gm_, "_resolve_component_relative_files")]
    # where the class's Media input is read: the definition of the variable that `extend` is taken from
    ext = [x for x in ast.walk(gm_) if isinstance(x, ast.Call) and norm(x.func) == "getattr" and len(x.args) >= 2 and isinstance(x.args[1], ast.Constant) and x.args[1].value == "extend" and isinstance(x.args[0], ast.Name)]
    reads = [st for st, v in assignments(gm_, ext[0].args[0].id) if v is not None] if ext else []
    cls_of_read = next((x.id for x in ast.walk(reads[0].value) if isinstance(x, ast.Name) and x.id not in ("getattr", "vars")), None) if reads else None
    okm = bool(res_a) and bool(res_m) and bool(reads) and all(c.lineno < reads[0].lineno for c in res_m) and norm(res_m[0].args[0]) == cls_of_read
    chk.ob("S4", "component_media:_get_comp_cls_media:resolves-before-reading-Media", m.loc(reads[0]) if reads else m.loc(gm_), okm,
           "the class's inputs are resolved (_resolve_media) before its Media is read, as in _get_comp_cls_attr" if okm else
           "`.media` reads the class's Media without resolving it first (only `.template`/`.js`/`.css` call _resolve_media): the memoised result holds unresolved relative paths when `.media` is the first access and resolved ones otherwise - the result depends on the access order")
    s4b_merge_loop(chk, m)
    r = m.func("_resolve_media")
    chk.analysed(fkey(m, r))
    # the "library base class" test must identify the class exactly (import path / identity), not by its bare name
    nm = [x for x in ast.walk(r) if isinstance(x, ast.Compare) and any(isinstance(y, ast.Attribute) and y.attr in ("__name__", "__qualname__") for y in ast.walk(x.left))
          and all(isinstance(c, ast.Constant) and isinstance(c.value, str) and "." not in c.value for c in x.comparators)]
    full = [x for x in ast.walk(r) if isinstance(x, ast.Compare) and any(isinstance(c, ast.Constant) and isinstance(c.value, str) and c.value.count(".") >= 2 and c.value.endswith(".Component") for c in x.comparators)
            or (isinstance(x, ast.Compare) and isinstance(x.ops[0], ast.Is) and norm(x.comparators[0]) == "Component")]
    chk.ob("S4", "component_media:_resolve_media:base-class-identified-exactly", m.loc(nm[0]) if nm else m.loc(r), bool(full) and not nm,
           "the skip for the library's own base class compares the full import path (or identity)" if full and not nm else
           f"`{short(nm[0]) if nm else 'no exact test'}` recognises the library base class by its bare name: a user class that is also called `Component` (a project-wide base) is marked resolved without its template_file / js_file / css_file ever being loaded")
    cfg = CFG(r)
    rec = params(r)[1]
    stores = [st for st in stmts(r) if isinstance(st, ast.Assign) and norm(st.targets[0]) == f"{rec}.resolved" and norm(st.value) == "True"]
    chk.floor("S4", len(stores), 2)
    for st in stores:
        n0 = cfg.node_containing(st)
        later = []
        for n in cfg.reachable_from(n0, labels={"n", "T", "F", "b"}):
            a = n.ast
            if a is None or a is st or n in n0 or n.kind in ("with_exit", "handler", "def"):
                continue
            if any(isinstance(c, ast.Call) for c in ast.walk(a)) or (isinstance(a, ast.Assign) and any(norm(t).startswith(rec + ".") for t in a.targets)):
                later.append(a)
        chk.ob("S4", f"component_media:_resolve_media:resolved-is-last@{'early' if st is stores[0] and len(stores) > 1 else 'end'}", m.loc(later[0]) if later else m.loc(st), not later,
               "no call and no store into the record can follow `resolved = True`" if not later else
               f"`{short(later[0])}` runs after the record was flagged resolved: if it raises (a file not on disk yet) the class stays flagged and every later access silently returns None / unresolved values; a concurrent reader sees a half-filled record")


def s4b_merge_loop(chk: Check, m, rule: str = "S4") -> None:
    """Every selected base contributes: in the merge loop a base is skipped only when its memo entry is missing."""
    f = m.func("_get_comp_cls_media")
    # order clause: the merged Media keeps ONE LIST PER DECLARATION (as django.forms.Media.__add__ does); building a new
    # Media from the flattened `_js` / `_css` of an intermediate result turns a partial order into a total one
    flat = [c for c in ast.walk(f) if isinstance(c, ast.Call) and any(isinstance(k.value, ast.Attribute) and k.value.attr in ("_js", "_css") for k in c.keywords)
            and any(isinstance(a, (ast.For, ast.While)) for a in ancestors(c))]
    chk.ob(rule, "component_media:_get_comp_cls_media:declared-lists-kept", m.loc(flat[0]) if flat else m.loc(f), not flat,
           "no intermediate result is re-flattened: the memo keeps the declared lists, Django orders the files consistently with all of them" if not flat else
           f"`{short(flat[0], 70)}` rebuilds the Media from the FLATTENED lists after every base: a flat list is a total order and invents constraints between files that no declaration relates - B1 [b], B2 [b, a], C [a] are mutually consistent, yet C.media is [a, b] (with a spurious MediaOrderConflictWarning)")
    loops = [lp for lp in ast.walk(f) if isinstance(lp, ast.For) and any(isinstance(c, ast.Call) and isinstance(c.func, ast.Attribute) and c.func.attr == "get" and norm(c.func.value) == "media_cache" for c in ast.walk(lp))]
    if len(loops) != 1:
        chk.undecided(rule, "component_media:_get_comp_cls_media:merge-loop-skips-only-missing", m.loc(f), f"{len(loops)} merge loops")
        return
    lp = loops[0]
    var = next((st.targets[0].id for st in lp.body if isinstance(st, ast.Assign) and isinstance(st.targets[0], ast.Name) and "media_cache" in norm(st.value)), None)
    skips = [st for st in ast.walk(lp) if isinstance(st, ast.If) and any(isinstance(x, ast.Continue) for x in st.body)]
    bad = [st for st in skips if norm(st.test) != f"{var} is None"]
    chk.ob(rule, "component_media:_get_comp_cls_media:merge-loop-skips-only-missing", m.loc(bad[0]) if bad else m.loc(lp), not bad,
           f"a base is skipped only if `{var} is None`" if not bad else
           f"`if {short(bad[0].test)}: continue` skips bases that DO have Media (e.g. stylesheets only, or scripts only): the files they contribute are missing from every class below them")


def _rstrip_sites(tree: ast.AST) -> List[ast.Call]:
    out = []
    for c in ast.walk(tree):
        if isinstance(c, ast.Call) and isinstance(c.func, ast.Attribute) and c.func.attr in ("rstrip", "lstrip", "strip") and c.args and isinstance(c.args[0], ast.Constant) and isinstance(c.args[0].value, str):
            v = c.args[0].value
            if len(v) >= 3 and re.fullmatch(r"[\w.\-]+", v) and len(set(v)) >= 3:
                out.append(c)
    return out


def s1(chk: Check, proj: Project, m) -> None:
    chk.rule("S1", "the asset pairs agree between ComponentMedia's fields, the exclusivity loop, the lazy-resolve setup, COMP_MEDIA_LAZY_ATTRS and the pair groups of _get_comp_cls_attr; the exclusivity loop visits every pair")
    want = {(a, a + "_file") for a in INLINE}
    # (1) dataclass fields
    cm = m.cls("ComponentMedia")
    fields = {s.target.id for s in cm.body if isinstance(s, ast.AnnAssign) and isinstance(s.target, ast.Name)}
    got1 = {(a, a + "_file") for a in INLINE if a in fields and a + "_file" in fields}
    chk.ob("S1", "component_media:ComponentMedia:fields", m.loc(cm), got1 == want, f"fields cover {sorted(got1)}")
    # (2) exclusivity loop
    pi = m.func("ComponentMedia.__post_init__")
    chk.analysed(fkey(m, pi))
    loop = next((x for x in body_walk(pi) if isinstance(x, ast.For)), None)
    ok2 = False
    if loop is not None:
        okf, it = proj.try_fold(m, loop.iter)
        var = norm(loop.target)
        fav = local_from(pi, lambda v: norm(v) == f"f'{{{var}}}_file'", nested=True)
        suffix_ok = fav is not None
        raises = [s for s in loop.body if isinstance(s, ast.If) and any(isinstance(r, ast.Raise) for r in s.body)]
        both = bool(raises) and f"getattr(self, {var}) is not None" in norm(raises[0].test) and f"getattr(self, {fav}) is not None" in norm(raises[0].test) and isinstance(raises[0].test, ast.BoolOp) and isinstance(raises[0].test.op, ast.And)
        ok2 = okf and set(it) == INLINE and suffix_ok and both
        jumps = [x for x in ast.walk(loop) if isinstance(x, (ast.Break, ast.Return)) or (isinstance(x, ast.Continue))]
        # a `continue` is harmless only if it is not in front of the check of the SAME iteration's later pairs: the
        # original loop has no jumps at all; break/return skip the remaining pairs
        brk = [x for x in jumps if isinstance(x, (ast.Break, ast.Return))]
        chk.ob("S1", "component_media:__post_init__:visits-every-pair", m.loc(brk[0]) if brk else m.loc(loop), not brk,
               "the exclusivity loop has no break/return: every pair is checked" if not brk else
               f"`{short(brk[0])}` leaves the exclusivity loop early: pairs after the first one whose inlined member is unset are never checked, so a class defining both `js` and `js_file` is accepted")
        single = len(loop.body) <= 2 and bool(raises)
        chk.ob("S1", "component_media:__post_init__:check-shape", m.loc(loop), both and single, "raises iff both members of the pair are not None" if both and single else "the mutual-exclusion test is not `inline is not None and file is not None` for the pair of this iteration")
    chk.ob("S1", "component_media:__post_init__:pairs", m.loc(pi), ok2, "loop over ('template','js','css') with f'{x}_file'" if ok2 else "the exclusivity loop does not enumerate exactly the three pairs")
    # (3) lazy resolve setup
    sl = m.func("_setup_lazy_media_resolve")
    c = calls(sl, "ComponentMedia")
    got3 = set()
    if c:
        kws = {k.arg: norm(k.value) for k in c[0].keywords if k.arg}
        got3 = {(a, a + "_file") for a in INLINE if kws.get(a) == f"attrs.get('{a}', None)" and kws.get(a + "_file") == f"attrs.get('{a}_file', None)"}
    chk.ob("S1", "component_media:_setup_lazy_media_resolve:attrs", m.loc(sl), got3 == want, "each member is taken from THIS class's attrs under its own name" if got3 == want else f"lazy setup reads {sorted(got3)} correctly; expected {sorted(want)}")
    # (4) lazy attrs
    okf, lazy = proj.try_fold(m, m.global_value("COMP_MEDIA_LAZY_ATTRS"))
    got4 = {(a, a + "_file") for a in INLINE if okf and a in lazy and a + "_file" in lazy}
    chk.ob("S1", "component_media:COMP_MEDIA_LAZY_ATTRS", m.loc(m.global_value("COMP_MEDIA_LAZY_ATTRS")), got4 == want and okf and "media" in lazy, f"lazy attributes cover the pairs and `media`")
    # (5) pair groups
    ga = m.func("_get_comp_cls_attr")
    chk.analysed(fkey(m, ga))
    groups = set()
    for s in stmts(ga):
        if isinstance(s, ast.If) and isinstance(s.test, ast.Compare) and norm(s.test.left) == params(ga)[1] and isinstance(s.test.ops[0], ast.In):
            okk, mem = proj.try_fold(m, s.test.comparators[0])
            cp = [x for x in calls(s, "check_pair_empty")]
            if okk and cp and len(cp[0].args) == 2:
                okp, a0 = proj.try_fold(m, cp[0].args[0])
                okq, a1 = proj.try_fold(m, cp[0].args[1])
                if okp and okq and set(mem) == {a0, a1}:
                    groups.add((a0, a1))
    chk.ob("S1", "component_media:_get_comp_cls_attr:pair-groups", m.loc(ga), groups == want, f"pair groups {sorted(groups)}" if groups == want else
           f"_get_comp_cls_attr recognises the pairs {sorted(groups)}, expected {sorted(want)}: for the missing pair the 'nearest class that defines either member' rule is not applied (a child's inlined value does not shadow the parent's file)")
    # pair-emptiness helper
    cpf = next((x for x in body_walk(ga) if isinstance(x, ast.FunctionDef) and x.name == "check_pair_empty"), None)
    okh = cpf is not None and any(isinstance(r, ast.Return) and isinstance(r.value, ast.BoolOp) and isinstance(r.value.op, ast.And) for r in ast.walk(cpf))
    chk.ob("S1", "component_media:_get_comp_cls_attr:pair-empty-is-conjunction", m.loc(cpf) if cpf is not None else m.loc(ga), okh, "a pair is empty iff BOTH members are None")
    # character-set stripping used as suffix removal (package-wide, zero expected)
    chk.rule("S1b", "no str.rstrip/lstrip/strip with a multi-character literal that reads like a suffix/prefix (it strips a character SET)")
    n = 0
    for mm in proj.modules.values():
        if "management" in mm.name:
            continue
        for c in _rstrip_sites(mm.tree):
            n += 1
            chk.violated("S1b", f"{mm.name.replace('django_components.', '')}:{short(c, 50)}", mm.loc(c), f"`{short(c)}` strips every trailing/leading character in the SET {sorted(set(c.args[0].value))}, not the suffix: 'template'.rstrip('_file') == 'templat', so `template`/`template_file` are no longer recognised as a pair")
    if not _rstrip_sites(ast.parse(_FIXTURE_RSTRIP)):
        raise AnalysisError("S1b positive fixture no longer matches")
    if n == 0:
        chk.holds("S1b", "package:no-charset-strip", "-", "no such call in the package (positive fixture matched)", nontrivial=False)


def s2(chk: Check, proj: Project, m) -> None:
    chk.rule("S2", "media_cache[c] is written only in _get_comp_cls_media, only once every selected base is in the memo (judged by the memo alone), and the stored value depends only on c and its bases' memo entries")
    inv = inventory(proj)
    g = inv.get("component_media:media_cache")
    if g is None:
        raise AnalysisError("anchor vanished: media_cache")
    writes = [a for a in accesses(proj, g) if a.kind in ("insert", "remove", "rebind")]
    for a in writes:
        ok = a.func is not None and a.func.name == "_get_comp_cls_media"
        chk.ob("S2", f"component_media:{short(a.stmt(), 50)}", a.loc, ok, "memo written by its owner" if ok else f"`{short(a.stmt())}` writes the Media memo outside _get_comp_cls_media", nontrivial=False)
    f = m.func("_get_comp_cls_media")
    chk.analysed(fkey(m, f))
    req = params(f)[0]
    st = [s for s in stmts(f) if isinstance(s, ast.Assign) and isinstance(s.targets[0], ast.Subscript) and norm(s.targets[0].value) == "media_cache"]
    if len(st) != 1:
        chk.undecided("S2", "component_media:_get_comp_cls_media:store", m.loc(f), f"{len(st)} memo stores")
        return
    store = st[0]
    keyv = norm(store.targets[0].slice)
    # unresolved test
    ub = [s for s in stmts(f) if isinstance(s, ast.Assign) and isinstance(s.value, (ast.ListComp, ast.GeneratorExp)) and "media_cache" in norm(s.value)]
    if len(ub) != 1:
        chk.undecided("S2", "component_media:_get_comp_cls_media:unresolved-test", m.loc(f), "unresolved-bases computation not recognised")
        return
    comp = ub[0].value
    cond_names = {x.id for c in comp.generators for i in c.ifs for x in ast.walk(i) if isinstance(x, ast.Name)}
    elt_vars = {x.id for c in comp.generators for x in ast.walk(c.target) if isinstance(x, ast.Name)}
    extra = cond_names - elt_vars - {"media_cache"}
    chk.ob("S2", "component_media:_get_comp_cls_media:resolved-judged-by-memo-alone", m.loc(ub[0]), not extra and "not in media_cache" in norm(comp),
           "a base counts as unresolved iff it is not in media_cache" if not extra else
           f"whether a base still has to be resolved depends on {sorted(extra)} (the work list / traversal state), not only on the memo: a base that is already queued is skipped, is still missing when the class is built, and a truncated Media is memoised -- the result depends on which class was accessed first")
    uv = norm(ub[0].targets[0])
    cfg = CFG(f)
    dom = cfg.dominators()
    guards = [n for n in cfg.nodes if n.kind == "test" and n.ast is not None and norm(n.ast) == uv]
    okd = bool(guards) and all(cfg.dominates(guards[0], sn, dom) for sn in cfg.nodes_of(store))
    gi = guards[0].meta.get("owner") if guards else None
    requeue = isinstance(gi, ast.If) and isinstance(gi.body[-1], ast.Continue) and any("extendleft" in norm(s) and uv in norm(s) and keyv in norm(s) for s in gi.body)
    chk.ob("S2", "component_media:_get_comp_cls_media:store-after-bases", m.loc(store), okd and requeue, "the memo is written only after `if unresolved_bases: requeue bases + class; continue`" if okd and requeue else "the memo can be written while selected bases are still unresolved")
    # the entry is COMPLETE when it is published: nothing writes through the stored object after the store, and the loop that
    # merges the bases' entries into it has run before (another thread reads the memo without any lock)
    if isinstance(store.value, ast.Name):
        sv = store.value.id
        later_writes = [x for x in body_walk(f) if getattr(x, "lineno", 0) > store.lineno and ((isinstance(x, ast.Attribute) and isinstance(x.ctx, ast.Store) and norm(x.value) == sv) or (isinstance(x, ast.AugAssign) and norm(x.target) == sv)
                        or (isinstance(x, ast.Call) and isinstance(x.func, ast.Attribute) and norm(x.func.value) == sv and x.func.attr in ("append", "extend", "update", "add", "merge", "__iadd__")))]
        merge_loops = [x for x in body_walk(f) if isinstance(x, ast.For) and "media_cache.get(" in norm(x)]
        late_merge = [x for x in merge_loops if x.lineno > store.lineno]
        okc = not later_writes and not late_merge
        chk.ob("S2", "component_media:_get_comp_cls_media:entry-complete-when-published", m.loc((later_writes or late_merge or [store])[0]), okc,
               "the memo entry is stored after the merge loop and never written through afterwards" if okc else
               f"`{short(store)}` publishes the class's Media BEFORE the bases have been merged into it (`{short(enclosing_stmt((later_writes or late_merge)[0]), 60)}` comes later and changes the published object in place): a thread that reads the memo in between renders the component without the files it inherits")
    # the iteration source of `bases` used in the comprehension is the same `bases` merged later
    merged_iter = [x for x in body_walk(f) if isinstance(x, ast.For) and "media_cache.get(" in norm(x)]
    src = norm(comp.generators[0].iter)
    okm = bool(merged_iter) and norm(merged_iter[0].iter) == src
    chk.ob("S2", "component_media:_get_comp_cls_media:same-bases", m.loc(merged_iter[0]) if merged_iter else m.loc(f), okm, f"the bases tested for resolution are the bases merged (`{src}`)")
    # def-use cone of the stored value
    cone: Set[str] = set()
    todo = [norm(store.value)] if isinstance(store.value, ast.Name) else [x.id for x in ast.walk(store.value) if isinstance(x, ast.Name)]
    while todo:
        v = todo.pop()
        if v in cone:
            continue
        cone.add(v)
        if v == keyv:
            continue  # the memo is a function of its key: where the key came from (the work list) is irrelevant
        for _s, val in assignments(f, v):
            if val is not None:
                todo.extend(x.id for x in ast.walk(val) if isinstance(x, ast.Name))
        for lp in [x for x in body_walk(f) if isinstance(x, ast.For) and any(isinstance(t, ast.Name) and t.id == v for t in ast.walk(x.target))]:
            todo.extend(x.id for x in ast.walk(lp.iter) if isinstance(x, ast.Name))
    bad = cone & {req, "bases_stack"}
    chk.ob("S2", "component_media:_get_comp_cls_media:value-cone", m.loc(store), not bad and keyv in cone,
           f"the memoised value depends on {sorted(cone - {'getattr', 'MediaCls', 'tuple'})[:10]} -- not on the requested class or the work list" if not bad else
           f"the memoised Media of `{keyv}` depends on {sorted(bad)}: it differs with the class that was requested first")
    rets = [s for s in stmts(f) if isinstance(s, ast.Return)]
    chk.ob("S2", "component_media:_get_comp_cls_media:returns-memo-of-requested", m.loc(rets[-1]) if rets else m.loc(f), bool(rets) and norm(rets[-1].value) == f"media_cache[{req}]", "returns the memo entry of the requested class")


def s3(chk: Check, proj: Project, m) -> None:
    chk.rule("S3", "Media.extend is handled as True (all bases) / False (none) / otherwise the given classes")
    f = m.func("_get_comp_cls_media")
    ME = local_from(f, lambda v: isinstance(v, ast.Call) and norm(v.func) == "getattr" and len(v.args) >= 2 and isinstance(v.args[1], ast.Constant) and v.args[1].value == "extend")
    # the Media input is whatever `extend` is read from
    MI = None
    for _s, v in assignments(f, ME) if ME else []:
        if isinstance(v, ast.Call) and v.args and isinstance(v.args[0], ast.Name):
            MI = v.args[0].id
    BS = local_from(f, lambda v: norm(v).endswith(".__bases__"))
    if not (MI and ME and BS):
        chk.undecided("S3", "component_media:_get_comp_cls_media:roles", m.loc(f), "Media / extend / bases variables not identified")
        return
    a = assignments(f, BS)
    got = {}
    for s, v in a:
        at = cond_atoms(s)
        if any(pol and t == f"{ME} is True" for t, pol in at):
            got["True"] = norm(v)
        elif any(pol and t == f"{ME} is False" for t, pol in at):
            got["False"] = norm(v)
        else:
            got["other"] = norm(v)
    ok = got.get("True", "").endswith(".__bases__") and got.get("False") in ("tuple()", "()", "[]") and got.get("other") == ME
    chk.ob("S3", "component_media:_get_comp_cls_media:extend-trichotomy", m.loc(a[0][0]) if a else m.loc(f), ok, f"extend: True -> {got.get('True')}, False -> {got.get('False')}, else -> {got.get('other')}" if ok else f"the extend dispatch is {got}: one of True / False / sequence is not handled")
    d = assignments(f, ME)
    okd = len(d) == 1 and norm(d[0][1]) == f"getattr({MI}, 'extend', True)"
    chk.ob("S3", "component_media:_get_comp_cls_media:extend-default-true", m.loc(d[0][0]) if d else m.loc(f), okd, "extend defaults to True")
    mi = assignments(f, MI)
    resets = [(s_, v_) for s_, v_ in mi[1:] if isinstance(v_, ast.Constant) and v_.value is None]
    if resets:
        chk.violated("S3", "component_media:_get_comp_cls_media:own-media-never-discarded", m.loc(resets[0][0]),
                     f"`{short(resets[0][0])}` under `{' and '.join(('' if pol else 'not ') + t for t, pol in cond_atoms(resets[0][0])) or 'always'}` throws the class's own Media away before its `extend` is read: a Media that only steers inheritance (`class Media: extend = False`, or `extend = [Other]` without files of its own) is ignored, the class and everything below it inherit from all bases and miss the listed classes")
        mi = mi[:1]
    else:
        chk.holds("S3", "component_media:_get_comp_cls_media:own-media-never-discarded", m.loc(mi[0][0]) if mi else m.loc(f), "the Media input is assigned once: its `extend` is read whatever files it declares")
    built = got.get("True", "").rsplit(".__bases__", 1)[0]
    src = norm(mi[0][1]) if len(mi) == 1 and mi[0][1] is not None else ""
    # OWN means: not found through attribute inheritance - the per-class record (`<rec>.Media`, rec read from the class being
    # built) or the class's own __dict__; getattr(cls, "Media") returns a base's Media for a class that defines none
    rec_names = {n_ for n_ in {x.id for x in ast.walk(mi[0][1]) if isinstance(x, ast.Name)} if any(v is not None and f"getattr({built}, '_component_media'" in norm(v) for _s, v in assignments(f, n_))} if len(mi) == 1 and mi[0][1] is not None else set()
    own = (bool(rec_names) and ".Media" in src) or f"{built}.__dict__" in src or f"vars({built})" in src
    inherited = src.startswith(f"getattr({built}, 'Media'")
    if not own and not inherited:
        chk.undecided("S3", "component_media:_get_comp_cls_media:own-media", m.loc(mi[0][0]) if mi else m.loc(f), f"source of the Media input not recognised: `{src}`")
    else:
        chk.ob("S3", "component_media:_get_comp_cls_media:own-media", m.loc(mi[0][0]) if mi else m.loc(f), own,
               "the Media input is the class's OWN Media (per-class record / __dict__), never one found through inheritance" if own else
               f"`{src}` finds a base's Media for a class that defines none, together with that base's `extend`: `class C(A, B): pass` with A.Media.extend = False gets only A's files, B's are lost (no own Media means: extend all bases)")
    # _get_comp_cls_attr walks the MRO of the requested class and resolves each base lazily
    ga = m.func("_get_comp_cls_attr")
    wr = [x for x in ast.walk(ga) if (isinstance(x, ast.Call) and norm(x.func) in ("setattr", "object.__setattr__")) or (isinstance(x, ast.Attribute) and isinstance(x.ctx, ast.Store)) or (isinstance(x, ast.Subscript) and isinstance(x.ctx, ast.Store) and isinstance(x.value, ast.Attribute))]
    chk.ob("S3", "component_media:_get_comp_cls_attr:read-only", m.loc(wr[0]) if wr else m.loc(ga), not wr,
           "the getter stores nothing on any class's media record (the only writer is _resolve_media, for the class it resolves)" if not wr else
           f"`{short(enclosing_stmt(wr[0]))}` writes into a media record while a value is being READ: an inherited value remembered on the asking class makes that class look like the nearest one defining the pair - afterwards the other member of the pair (js vs js_file) is None on it, and in a diamond the answer depends on which class was read first")
    rm_ = m.func("_resolve_media")
    rcls = params(rm_)[0]
    # the relative-path rewrite of the class's own Media happens whenever the class is resolved at all: once `resolved` is set
    # the `.media` getter skips the rewrite too, so a condition on the file attributes makes `.media` depend on access order
    rel = [c for c in calls(rm_) if last_attr(c.func) == "_resolve_component_relative_files"]
    if not rel:
        chk.undecided("S3", "component_media:_resolve_media:relative-files-whenever-resolved", m.loc(rm_), "_resolve_component_relative_files(...) call not found")
    else:
        extra = [(t, pol) for t, pol in cond_atoms(enclosing_stmt(rel[0])) if not ("resolved" in t or "get_import_path" in t or "Component'" in t)]
        chk.ob("S3", "component_media:_resolve_media:relative-files-whenever-resolved", m.loc(rel[0]), not extra,
               "the Media paths are rewritten relative to the component directory on every path that marks the class resolved" if not extra else
               f"_resolve_component_relative_files(...) runs only if `{('' if extra[0][1] else 'not ') + extra[0][0]}`, yet the class is marked resolved either way: a component with everything inlined and RELATIVE Media files keeps `card.js` instead of `cards/card.js` when .template / .js / .css is read before .media - and the right paths when .media is read first")
    gm2 = m.func("_get_comp_cls_media")
    for lp in [x for x in ast.walk(gm2) if isinstance(x, ast.While)]:
        brk = [x for x in ast.walk(lp) if isinstance(x, ast.Break) and next((a for a in ancestors(x) if isinstance(a, (ast.For, ast.While))), None) is lp]
        chk.ob("S3", "component_media:_get_comp_cls_media:work-loop-runs-until-the-stack-is-empty", m.loc(brk[0]) if brk else m.loc(lp), not brk,
               "the work loop has no break: a class that is already memoised is skipped, the classes queued behind it are still processed" if not brk else
               f"`break` under `{' and '.join(('' if pol else 'not ') + t for t, pol in cond_atoms(brk[0])) or 'always'}` ends the work loop at the first class that is already memoised: with A; B(A); C(B, A) - A is queued twice - the loop stops while C is still unresolved and `media_cache[C]` raises KeyError (only if C's media is read before A's or B's)")
    nm_ = m.func("_normalize_media")
    single_tests = [st for st in ast.walk(nm_) if isinstance(st, ast.If) and st.body and any(isinstance(x, ast.Assign) and isinstance(x.value, (ast.List, ast.Dict)) for x in st.body) and not isinstance(st.test, ast.BoolOp)
                    and not (isinstance(st.test, ast.Call) and norm(st.test.func) == "isinstance" and len(st.test.args) == 2 and any(isinstance(y, ast.Name) and y.id in ("dict", "list", "tuple") for y in ast.walk(st.test.args[1])))]
    odd = [st for st in single_tests if not (isinstance(st.test, ast.Call) and last_attr(st.test.func) == "_is_media_filepath")]
    chk.ob("S5", "component_media:_normalize_media:one-predicate-for-a-single-path", m.loc(odd[0]) if odd else m.loc(nm_), not odd and len(single_tests) >= 2,
           f"all {len(single_tests)} 'is this ONE path?' decisions use _is_media_filepath" if not odd and len(single_tests) >= 2 else
           f"`if {short(odd[0].test) if odd else '?'}` decides 'one path or a list' with another test than _is_media_filepath, which the sibling branches use: a callable or an object with __html__ given as a single value of the css dict (`{{\"print\": lazy_fn}}`) is not wrapped in a list and class creation raises TypeError, although the same value works in the str / list forms")
    budget = []
    for lp in [x for x in ast.walk(gm2) if isinstance(x, ast.While)]:
        for r in [x for x in ast.walk(lp) if isinstance(x, ast.Raise)]:
            for t, pol in cond_atoms(r):
                names_ = set(re.findall(r"[A-Za-z_]\w*", t))
                counters = {n_ for n_ in names_ if any(isinstance(x, ast.AugAssign) and norm(x.target) == n_ and any(a is lp for a in ancestors(x)) for x in ast.walk(lp))}
                if counters and any(isinstance(o, (ast.Gt, ast.GtE, ast.Lt, ast.LtE)) for c_ in ast.walk(r.parent if hasattr(r, "parent") else r) if isinstance(c_, ast.Compare) for o in c_.ops):
                    bound_src = " ".join(norm(v) for n_ in names_ - counters for _s, v in assignments(gm2, n_) if v is not None)
                    budget.append((r, t, bound_src))
    if budget:
        r, t, bsrc = budget[0]
        mro_bound = any(k in bsrc for k in ("mro()", "__mro__", "__bases__"))
        chk.ob("S3", "component_media:_get_comp_cls_media:no-step-budget-from-the-mro", m.loc(r), False if mro_bound else None,
               f"the work loop gives up when `{t}` with a budget computed from `{bsrc}`: classes reached through `Media.extend = [...]` and THEIR ancestors are not in the requested class's MRO and are not budgeted for - `class Page(Component): class Media: extend = [Toolkit]` with Toolkit on a four-class chain raises if Page.media is the first media read, and works if the chain was read before (access-order dependence)")
    else:
        chk.holds("S3", "component_media:_get_comp_cls_media:no-step-budget-from-the-mro", m.loc(gm2), "the work loop ends when its stack is empty; no step budget can cut a legitimate hierarchy short")
    others = [c for c in ast.walk(rm_) if isinstance(c, ast.Call) and last_attr(c.func) == "_resolve_media"] + [x for x in ast.walk(rm_) if isinstance(x, ast.Attribute) and x.attr in ("__bases__", "__mro__", "mro") and norm(x.value) == rcls]
    chk.ob("S3", "component_media:_resolve_media:own-class-only", m.loc(others[0]) if others else m.loc(rm_), not others,
           f"_resolve_media loads the files of `{rcls}` alone; ancestors are resolved by the MRO walk only when the walk actually reaches them" if not others else
           f"`{short(enclosing_stmt(others[0]))}`: resolving a class also resolves its ancestors, i.e. loads files of classes whose pair is overridden further down - a base with a placeholder `template_file` that does not exist makes reading the subclass's own template raise, where the value of the nearest defining class is what is asked for")
    loop = next((x for x in body_walk(ga) if isinstance(x, ast.For)), None)
    okl = loop is not None and norm(loop.iter) == f"{params(ga)[0]}.mro()"
    chk.ob("S3", "component_media:_get_comp_cls_attr:mro-walk", m.loc(loop) if loop is not None else m.loc(ga), okl, "attributes are looked up along the MRO")
    if loop is not None:
        brk = [x for x in ast.walk(loop) if isinstance(x, ast.Break) and next((a for a in ancestors(x) if isinstance(a, (ast.For, ast.While))), None) is loop]
        chk.ob("S3", "component_media:_get_comp_cls_attr:mro-walk-complete", m.loc(brk[0]) if brk else m.loc(loop), not brk,
               "the MRO walk has no break: classes without a media record are skipped, the walk goes on behind them" if not brk else
               f"`{short(enclosing_stmt(brk[0]))}` ends the MRO walk at the first class without a media record: with a plain mixin in front of a component base (class Child(HelperMixin, Base)) `.template` / `.js` / `.css` are None although Base defines them")
    rm = [c for c in calls(ga, "_resolve_media")]
    okr = bool(rm) and norm(rm[0].args[0]) == norm(loop.target) if loop is not None and rm else False
    chk.ob("S3", "component_media:_get_comp_cls_attr:resolves-the-base", m.loc(rm[0]) if rm else m.loc(ga), okr, "each class's files are resolved relative to THAT class")


def s6_defined_is_not_none(chk: Check, proj: Project, m) -> None:
    chk.rule("S6", "'the nearest class that DEFINES the asset' is judged by `is None` alone: the asset loader returns None only for an attribute that is not set - an empty or blank `js = \"\"` / `css = \"\\n\"` is a definition (the documented way for a subclass to switch an inherited asset off), so no return of the loader depends on the content's truthiness or on its stripped value")
    f = m.func("_get_asset")
    chk.analysed(f"{m.name}:_get_asset")
    from ..astq import local_from
    from ..cfg import flatten_conj, path_conditions

    cv = local_from(f, lambda v: isinstance(v, ast.Call) and norm(v.func) == "getattr" and len(v.args) >= 2)
    if cv is None:
        raise AnalysisError("_get_asset: the local holding the inlined content was not found")
    rets = [r for r in ast.walk(f) if isinstance(r, ast.Return)]
    chk.floor("S6", len(rets), 1)
    for r in rets:
        bad = []
        for e, pol in flatten_conj(path_conditions(r)):
            if not any(isinstance(x, ast.Name) and x.id == cv for x in ast.walk(e)):
                continue
            if isinstance(e, ast.Compare) and len(e.ops) == 1 and isinstance(e.ops[0], (ast.Is, ast.IsNot)) and isinstance(e.comparators[0], ast.Constant) and e.comparators[0].value is None:
                continue
            bad.append(e)
        drops = r.value is None or (isinstance(r.value, ast.Constant) and r.value.value is None) or (isinstance(r.value, ast.BoolOp) and any(isinstance(x, ast.Name) and x.id == cv for x in ast.walk(r.value)))
        ok = not (bad and drops) and not (isinstance(r.value, ast.BoolOp) and drops)
        chk.ob("S6", f"component_media:_get_asset:{short(r, 40)}:none-only-for-undefined", m.loc(r), ok,
               "this return does not turn a defined (possibly empty) asset into None" if ok else
               f"`{short(r)}` under `{short(bad[0]) if bad else short(r.value)}` reports a DEFINED but blank asset as not defined: a subclass that sets `js = \"\"` to switch its parent's script off looks like it defines neither member of the pair, the MRO walk skips it, and the subclass (and the page) carries the parent's JS / CSS")


def s7_declared_collections_not_mutated(chk: Check, proj: Project, m) -> None:
    chk.rule("S7", "a class's Media is computed from what THAT class declares: the normalisers bind fresh collections to `media.js` / `media.css` and never write INTO the list / dict the user declared (`media.css[k] = ..`, `media.js[:] = ..`, `.append`) - a collection constant shared by two component classes (`COMMON_CSS = {'all': ['widget.css']}`) is otherwise rewritten by the first class that resolves its relative paths, and the other class's `.media` changes with the order of access")
    MUT = {"append", "extend", "insert", "update", "setdefault", "pop", "remove", "clear", "sort", "reverse", "__setitem__"}
    n_bind = 0
    for q, f in sorted(m.defs.items()):
        if not isinstance(f, ast.FunctionDef):
            continue
        ps = [a.arg for a in f.args.args]
        if not ps or ps[0] != "media" and not any("ComponentMediaInput" in norm(a.annotation) for a in f.args.args if a.annotation is not None):
            continue
        mp = next((a.arg for a in f.args.args if a.annotation is not None and "ComponentMediaInput" in norm(a.annotation)), ps[0])
        bad = []
        for x in ast.walk(f):
            if isinstance(x, (ast.Assign, ast.AugAssign)):
                for t in (x.targets if isinstance(x, ast.Assign) else [x.target]):
                    if isinstance(t, ast.Attribute) and isinstance(t.value, ast.Name) and t.value.id == mp and t.attr in ("js", "css"):
                        n_bind += 1
                    if isinstance(t, ast.Subscript) and isinstance(t.value, ast.Attribute) and isinstance(t.value.value, ast.Name) and t.value.value.id == mp and t.value.attr in ("js", "css"):
                        bad.append(x)
            elif isinstance(x, ast.Call) and isinstance(x.func, ast.Attribute) and x.func.attr in MUT and isinstance(x.func.value, ast.Attribute) and isinstance(x.func.value.value, ast.Name) and x.func.value.value.id == mp and x.func.value.attr in ("js", "css"):
                bad.append(x)
        chk.analysed(f"{m.name}:{q}")
        chk.ob("S7", f"component_media:{q}:binds-fresh-collections", m.loc(bad[0]) if bad else m.loc(f), not bad,
               f"{q} only rebinds `{mp}.js` / `{mp}.css`" if not bad else
               f"`{short(bad[0])}` writes into the collection object the user declared: two component classes in different directories that share one constant see each other's rewrite - after `Alpha.media` resolved `widget.css` against Alpha's directory, `Beta.media` (already computed as ['widget.css']) reads ['alpha_pkg/widget.css'] and the page links the other component's file")
    chk.floor("S7", n_bind, 4)


def s8_own_media_always_normalised(chk: Check, proj: Project, m) -> None:
    chk.rule("S8", "the short forms of a class's OWN `Media` are always normalised: at class creation `_normalize_media` is called for the Media the class body declares, guarded by its presence alone - a 'normalised already' mark read with getattr is INHERITED by `class Media(Parent.Media)` (Django's idiom), whose own `js = \"child.js\"` then reaches Django's Media as a raw string and is iterated character by character")
    cs = [(q, fn, c) for q, fn in sorted(m.defs.items()) if isinstance(fn, ast.FunctionDef) and fn.name == "__new__" for c in ast.walk(fn) if isinstance(c, ast.Call) and last_attr(c.func) == "_normalize_media"]
    chk.floor("S8", len(cs), 1)
    from ..cfg import flatten_conj as _fc, path_conditions as _pc

    for q, fn, c in cs:
        chk.analysed(f"{m.name}:{q}")
        extra = []
        for e, pol in _fc(_pc(c)):
            t = norm(e)
            presence = (isinstance(e, ast.Compare) and len(e.ops) == 1 and ((isinstance(e.ops[0], (ast.In, ast.NotIn)) and isinstance(e.left, ast.Constant) and e.left.value == "Media") or (isinstance(e.ops[0], (ast.Is, ast.IsNot)) and isinstance(e.comparators[0], ast.Constant) and e.comparators[0].value is None)))
            if not presence:
                extra.append(t)
        chk.ob("S8", f"component_media:{q}:own-Media-normalised-whenever-declared", m.loc(c), not extra,
               "`_normalize_media` runs whenever the class body declares a Media" if not extra else
               f"`{short(c)}` is skipped when `{extra[0]}`: a condition read from the Media class itself is inherited by a nested `class Media(Parent.Media)`, so the subclass's own short forms are never normalised - `Child.media._js == ['c', 'h', 'i', 'l', 'd', ...]`")


MANIFEST = {
    "text": "Decides agreement of the five tables that enumerate the asset pairs (fields, exclusivity loop, lazy setup, lazy-attribute list, pair groups of the MRO lookup), that the exclusivity loop cannot leave early, that no character-set strip is used as suffix removal, that the per-class Media memo is written only after all selected bases are memoised with 'resolved' judged by the memo alone and a value cone free of the requested class and the work list (access-order independence), and the extend trichotomy. Also: every class gets its own descriptor for every lazy attribute, the resolved flag is published last, and the library base class is identified by its full import path. Round 4 / triage: own Media only (never the inherited one), inputs resolved before Media is read, the merge loop skips only missing memo entries, the MRO walk is never cut short. Round 5: the attribute getter is read-only, _resolve_media touches its own class only, the class's own Media is never discarded before `extend` is read. Round 6: relative Media paths are rewritten whenever the class is marked resolved; no step budget derived from the MRO in the work loop; every accepted form of Media.css ends as a dict (F46). Round 7: inherited short forms of Media.css / js are normalised too; the memo entry is complete when published.",
    "note": "Trusted: Django's Media.__add__ merge. Not decided: the resulting file set/order; behaviour on real files.",
    "technique": "static table agreement, def-use cone / purity analysis of the memo, dominance, lint with positive fixture",
}


def s9_css_sequence_forms(chk: Check, proj: Project, m) -> None:
    chk.rule("S9", "the sequence short form of Media.css is accepted for the sequence types its sibling Media.js accepts (js passes every non-path value through, so a tuple works there) and Django's own Media accepts: the class test of the branch that wraps `css` into {'all': css} covers list AND tuple - a tuple must not fall through to the `must be str, list, or dict` error at class creation")
    f = m.func("_normalize_media")
    mp = params(f)[0]
    css = f"{mp}.css"
    wraps = []
    for st in ast.walk(f):
        if isinstance(st, ast.If):
            for b in st.body:
                if isinstance(b, ast.Assign) and norm(b.targets[0]) == css and isinstance(b.value, ast.Dict) and len(b.value.keys) == 1 and isinstance(b.value.values[0], ast.Name if False else ast.expr) and norm(b.value.values[0]) == css:
                    wraps.append(st)
    if not wraps:
        chk.undecided("S9", "component_media:_normalize_media:css-sequence-form", m.loc(f), "no branch of the shape `if <test>: media.css = {'all': media.css}` found: cannot decide which sequence types are accepted")
        return
    for st in wraps:
        t = st.test
        if isinstance(t, ast.Call) and isinstance(t.func, ast.Name) and t.func.id == "isinstance" and len(t.args) == 2 and norm(t.args[0]) == css:
            cls = t.args[1]
            names = {norm(e) for e in (cls.elts if isinstance(cls, ast.Tuple) else [cls])}
            wide = names & {"Sequence", "Iterable", "Collection", "typing.Sequence", "collections.abc.Sequence", "abc.Sequence"}
            ok = bool(wide) or {"list", "tuple"} <= names
            chk.ob("S9", "component_media:_normalize_media:css-sequence-form", m.loc(st), ok,
                   f"`{short(t)}` accepts lists and tuples" if ok else
                   f"`{short(t)}` accepts {sorted(names)} only: `class Media: css = (\"a.css\", \"b.css\")` (the form `js` accepts, and Django's Media too) raises ValueError at class creation, and Component.media never lists those files")
        else:
            chk.holds("S9", "component_media:_normalize_media:css-sequence-form", m.loc(st), f"the wrapping branch is guarded by `{short(t)}`, not by a class test that could leave a sequence type out", nontrivial=False)
