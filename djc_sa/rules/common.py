"""Shared tables and lazily built whole-program artefacts for the rule modules."""
from __future__ import annotations

from typing import Dict, List, Optional, Tuple

from ..callgraph import CallGraph
from ..pairing import Pairing
from ..source import AnalysisError, Project
from ..state import GlobalVar, Summaries, inventory

# Per-render registries: process-global containers whose entries belong to one render (keyed by a render /
# provide id). DESIGN.md C06-S0. Key = "<module suffix>:<name>".
PER_RENDER = {
    "perfutil.component:component_context_cache": "ComponentContext by render id",
    "perfutil.component:component_renderer_cache": "deferred renderer by render id",
    "perfutil.component:child_component_attrs": "root attributes handed from parent to child, by child render id",
    "perfutil.provide:provide_cache": "provided payload by provide id",
    "perfutil.provide:provide_references": "provide id -> set of referencing render ids",
    "perfutil.provide:all_reference_ids": "render ids that hold any provide reference",
}
# registries keyed by the *component render id* (released per component)
COMPONENT_ID_KEYED = [
    "perfutil.component:component_context_cache",
    "perfutil.component:component_renderer_cache",
    "perfutil.component:child_component_attrs",
    "perfutil.provide:all_reference_ids",
]

# Every other piece of process-global mutable state, classified (one line of reason each).
CLASSIFIED = {
    # bounded caches
    "cache:template_cache": ("bounded-cache", "LRUCache(maxsize=TEMPLATE_CACHE_SIZE), lazily created singleton"),
    "cache:component_media_cache": ("bounded-cache", "Django cache backend chosen by settings; holds JS/CSS text per class, not render objects"),
    "util.template_parser:_compile_take_until_pattern": ("bounded-cache", "lru_cache(maxsize=128) keyed by stop characters"),
    # per-class / per-tag memo: bounded by the program text, holds no render objects
    "component_media:media_cache": ("per-class-memo", "resolved Media per component class"),
    "dependencies:comp_hash_mapping": ("per-class-memo", "WeakValueDictionary class hash -> class"),
    "component:component_node_subclasses_by_name": ("per-tag-memo", "ComponentNode subclass per start tag"),
    # configuration
    "component_registry:all_registries": ("configuration", "registries created by the program"),
    "component_registry:registry": ("configuration", "default ComponentRegistry"),
    "finders:searched_locations": ("configuration", "staticfiles finder bookkeeping (Django convention)"),
    "app_settings:app_settings": ("configuration", "settings accessor, no per-render writes"),
    "app_settings:defaults": ("configuration", "default settings"),
    "tag_formatter:component_formatter": ("configuration", "stateless formatter instance"),
    "tag_formatter:component_shorthand_formatter": ("configuration", "stateless formatter instance"),
    "templatetags.component_tags:register": ("configuration", "template Library"),
    "util.logger:actual_trace_level_num": ("configuration", "logging level memo"),
    "dependencies:_CONTENT_TYPES": ("constant", "read-only table"),
    "dependencies:urlpatterns": ("constant", "URL table"),
    "urls:urlpatterns": ("constant", "URL table"),
    "library:PROTECTED_TAGS": ("constant", "read-only table"),
    "util.component_highlight:COLORS": ("constant", "read-only table"),
}

RENDER_ENTRIES = [
    ("component", "Component.render"),
    ("component", "Component._render"),
    ("component", "Component.render_to_response"),
    ("component", "ComponentNode.render"),
    ("slots", "SlotNode.render"),
    ("slots", "FillNode.render"),
    ("provide", "ProvideNode.render"),
    ("attributes", "HtmlAttrsNode.render"),
    ("dependencies", "ComponentCssDependenciesNode.render"),
    ("dependencies", "ComponentJsDependenciesNode.render"),
    ("components.dynamic", "DynamicComponent.on_render_before"),
    ("components.dynamic", "DynamicComponent.get_context_data"),
    ("dependencies", "render_dependencies"),
    ("node", "NodeMeta.__new__"),
]


class World:
    """Whole-program artefacts, built once per check run."""

    def __init__(self, proj: Project):
        self.proj = proj
        self._cg: Optional[CallGraph] = None
        self._inv: Optional[Dict[str, GlobalVar]] = None
        self._summ: Optional[Summaries] = None
        self._pair: Optional[Pairing] = None

    @property
    def cg(self) -> CallGraph:
        if self._cg is None:
            self._cg = CallGraph(self.proj)
        return self._cg

    @property
    def inv(self) -> Dict[str, GlobalVar]:
        if self._inv is None:
            self._inv = inventory(self.proj)
        return self._inv

    def registries(self) -> Dict[str, GlobalVar]:
        out = {}
        for k in PER_RENDER:
            if k not in self.inv:
                raise AnalysisError(f"anchor vanished: per-render registry {k}")
            out[k] = self.inv[k]
        return out

    @property
    def summ(self) -> Summaries:
        if self._summ is None:
            self._summ = Summaries(self.proj, self.cg, self.registries())
        return self._summ

    @property
    def pair(self) -> Pairing:
        if self._pair is None:
            self._pair = Pairing(self.proj, self.cg, self.summ)
        return self._pair

    def render_reachable(self) -> Dict[str, List[str]]:
        entries = []
        for mod, q in RENDER_ENTRIES:
            r = self.proj.try_func(mod, q)
            if r is not None:
                entries.append(f"{r[0].name}:{q}")
        if len(entries) < 8:
            raise AnalysisError(f"render entry points vanished: only {len(entries)} of {len(RENDER_ENTRIES)} found")
        return self.cg.reachable(entries)


_world_cache: Dict[int, World] = {}


def world(proj: Project) -> World:
    if id(proj) not in _world_cache:
        _world_cache[id(proj)] = World(proj)
    return _world_cache[id(proj)]
