"""C04 — exactly the JS/CSS of the rendered components, once, in order (DESIGN.md section 3, C04).

S1 writer/reader agreement of the in-band records: the language the writers can emit (derived from the source by
   abstract string evaluation) is included in what the reader regexes fully match (decided on a DFA built from the
   regex parse tree); separators never occur inside fields.
S2 markers and placeholders are always consumed: both substitutions dominate every return of render_dependencies.
S3 only rendered classes contribute: class hashes looked up come from the regex match; comp_hash_mapping is never
   iterated.
S4 exactly-once guards: seen-set loops test membership of the key only, before scheduling, and update in the same
   iteration.
S5 fragment declaration guard covers everything the payload contains.
"""
from __future__ import annotations

import ast
import itertools
from typing import Dict, List, Optional, Set, Tuple

from ..absstr import AbsStr, Evaluator, alphabet_of, concat, lit, simplify
from ..astq import assignments, calls, kwarg, names_in, stmts
from ..callgraph import fkey
from ..cfg import cond_atoms, flatten_conj, path_conditions
from ..regexlang import Lang, Seg, show
from ..report import Check
from ..source import AnalysisError, Project, ancestors, body_walk, dotted, enclosing_stmt, last_attr, norm, parent, short
from ..state import accesses
from .common import world
from .markers import class_hash_lang, compiled_regex, marker_writer, render_placeholder_writer, root_attr_shapes

# Serialisation of attributes by the external HTML step (djc_core_html_parser.set_html_attributes): trusted base.
ATTR_FMT = ' {name}=""'


def run(chk: Check, proj: Project) -> None:
    chk.explanation = (
        "Writer/reader language inclusion for the dependency marker comment, the dependency placeholders (with the "
        "attributes a root element can receive) and the nested-component placeholder; must-pass-through of the two "
        "substitutions that consume them; provenance of class hashes; dedupe-guard idioms."
    )
    chk.not_decided = ["ordering by first appearance", "content of inherited Media", "fragment-mode JSON content", "behaviour of the external HTML parser"]
    chk.trusted_base = [
        "djc_core_html_parser.set_html_attributes appends each attribute as ` name=\"\"` in list order and keeps `/>` of void elements",
        "md5().hexdigest() is lower-case hex; nanoid.generate draws only from its alphabet argument",
    ]
    w = world(proj)
    ev = Evaluator(proj, w.cg)
    s1_records(chk, proj, ev)
    s2_consumed(chk, proj, w)
    s3_provenance(chk, proj, w)
    s4_once(chk, proj, w)
    s5_fragment_guard(chk, proj)
    s6_marker_always_emitted(chk, proj, w)
    from . import C08

    sub = Check(chk.pid, chk.tier, chk.seed, quiet=True)
    C08.s6_gating(sub, proj, proj.mod("dependencies"))
    for o in sub.obls:
        chk.obls.append(type(o)(f"{chk.pid}-S7", o.construct, o.loc, o.verdict, o.message, o.nontrivial, o.detail))
    chk.rule("S7", "default-location insertion: a kind is suppressed only by its OWN placeholder and gets its own tags (shared with C08-S6)")
    s8_dynamic_mode(chk, proj)
    C08.s5(chk, proj, proj.mod("dependencies"), rule="S9")
    from . import C19

    C19.s5(chk, proj, w, rule="S10")
    from . import generic

    chk.rule("S13", "render routes and dependency helpers forward every shared parameter (type / render_dependencies among them), generic form (shared with C01-S10)")
    generic.forwarding(chk, "S13", proj, w.cg, ["component", "dependencies", "components.dynamic"], floor=4)
    chk.borrow("S12", "placeholder replacements are the per-mode variables (nothing is inlined where a fragment's placeholder was); script cache keys keep their fields unchanged; every selected base contributes its Media (shared with C08-S4, C19-S8, C16-S4)",
               lambda sub: (C08.s4(sub, proj, proj.mod("dependencies")), C19.s8_key_fields(sub, proj), __import__("djc_sa.rules.C16", fromlist=["x"]).s4b_merge_loop(sub, proj.mod("component_media"))))
    C08.s12_gives_up_only_without_both(chk, proj, proj.mod("dependencies"), rule="S15")
    from . import C15 as _C15

    chk.borrow("S14", "every component class has its OWN hash (a subclass that inherits its parent's hash overwrites the parent's entry in comp_hash_mapping: a page that renders only the parent gets the subclass's files) (shared with C15-S5)",
               lambda sub: _C15.s5(sub, proj, w, proj.mod("component_registry")), only=lambda o: "own-hash" in o.construct)
    chk.borrow("S16", "the default insertion points exist on every document: the end-tag scanner matches every syntactically valid </head> / </body> (whitespace before `>` included), so collected dependencies are never dropped for want of an insertion point (shared with C08-S8)",
               lambda sub: C08.s8_reader_not_wider(sub, proj, proj.mod("dependencies")), only=lambda o: "matches-every-head-body-end-tag" in o.construct)
    from . import C13 as _C13

    chk.borrow("S17", "a component pre-rendered in Python and handed on as slot content keeps its dependency marker intact: safe content is not escaped again (shared with C13-S2)",
               lambda sub: _C13.s2(sub, proj, w), only=lambda o: "plain-content" in o.construct or "wrapper-escapes" in o.construct)
    chk.rule("S18", "the Media of EVERY rendered class is collected through the class's merged `.media` (which includes inherited Media at any distance): the collector has no shortcut that decides from `class Media` declarations whether a class has files")
    dm_ = proj.mod("dependencies")
    pf_ = dm_.func("_process_dep_declarations")
    gm_ = next((x for x in ast.walk(pf_) if isinstance(x, ast.FunctionDef) and x is not pf_ and any(isinstance(y, ast.Attribute) and y.attr == "media" for y in ast.walk(x))), None)
    if gm_ is None:
        chk.undecided("S18", "dependencies:_process_dep_declarations:media-collector", dm_.loc(pf_), "the function that reads `.media` of a rendered class was not found")
    else:
        rets_ = [r for r in ast.walk(gm_) if isinstance(r, ast.Return)]
        # (a local alias of the instance's media counts)
        med_names = {t.id for st_ in ast.walk(gm_) if isinstance(st_, ast.Assign) and any(isinstance(y, ast.Attribute) and y.attr == "media" for y in ast.walk(st_.value)) for t in st_.targets if isinstance(t, ast.Name)}
        short_ = [r for r in rets_ if not (r.value is not None and any((isinstance(y, ast.Attribute) and y.attr == "media") or (isinstance(y, ast.Name) and y.id in med_names) for y in ast.walk(r.value)))]
        chk.ob("S18", "dependencies:_process_dep_declarations:media-collector-has-no-shortcut", dm_.loc(short_[0]) if short_ else dm_.loc(gm_), not short_,
               "every path returns the class's `.media`" if not short_ else
               f"`{short(short_[0])}` under `{' and '.join(('' if pol else 'not ') + t for t, pol in cond_atoms(short_[0])) or 'some condition'}` skips the class: a component whose Media is declared two or more levels up (no own Media, none on the direct parent) contributes none of its Media.js / Media.css files")
    chk.borrow("S21", "the Media files of every class in the merge are delivered with RESOLVED paths: each class's Media is resolved (relative files rewritten against that class's own file) before it is read into the merged, memoised result - resolving only the class that was asked for leaves an inherited `relative_file.js` unresolved, and the page links a URL that does not exist (shared with C16-S4)",
               lambda sub: __import__("djc_sa.rules.C16", fromlist=["x"]).s4(sub, proj, proj.mod("component_media")), only=lambda o: "resolves-before-reading" in o.construct)
    chk.borrow("S22", "a page rendered while ANOTHER thread is first touching a component class gets that class's complete assets: the `resolved` flag of the lazy js_file / css_file loader is set last, and the per-class Media memo is published only once every selected base is merged - a half-built object read by a concurrent render yields a page without the component's inline JS or without the inherited Media files (shared with C16-S4 / C16-S2)",
               lambda sub: (__import__("djc_sa.rules.C16", fromlist=["x"]).s4(sub, proj, proj.mod("component_media")), __import__("djc_sa.rules.C16", fromlist=["x"]).s2(sub, proj, proj.mod("component_media"))),
               only=lambda o: "resolved-is-last" in o.construct or "entry-complete-when-published" in o.construct)
    chk.borrow("S23", "only the classes that were rendered contribute inline JS / CSS: whether a subclass overrides an inherited script is judged by `is None` on the declared value as it was written (an empty `js = \"\"` switches the parent's script off) - the lazy-resolve setup hands the declared values on unchanged (shared with C16-S1)",
               lambda sub: __import__('djc_sa.rules.C16', fromlist=['x']).s1(sub, proj, proj.mod("component_media")), only=lambda o: "_setup_lazy_media_resolve" in o.construct)
    chk.borrow("S24", "a page delivers its components' scripts also after the media cache lost entries (flush, expiry, eviction): whether a script is cached is asked of the backend on every render, so a lost script is stored again - a module-level 'known cached' memo makes every later page render fail instead (shared with C19-S1)",
               lambda sub: C19.s1(sub, proj, w), only=lambda o: "_is_script_in_cache" in o.construct)
    chk.rule("S25", "two Media files are the same file only if their URLs are EQUAL: the key under which _postprocess_media_tags remembers a tag is the URL extracted from the tag, unchanged (no cut at `?` / `#`, no case folding, no normalisation) - `css?family=Roboto` and `css?family=Lato` are two stylesheets, and a key that forgets the query delivers the second one 0 times")
    pm_ = dm_.func("_postprocess_media_tags")
    chk.analysed(fkey(dm_, pm_))
    keyv = next((norm(t.slice) for st_ in ast.walk(pm_) if isinstance(st_, ast.Assign) for t in st_.targets if isinstance(t, ast.Subscript) and isinstance(t.slice, ast.Name)), None)
    if keyv is None:
        chk.undecided("S25", "dependencies:_postprocess_media_tags:key-is-the-url", dm_.loc(pm_), "the dict store keyed by the URL was not found")
    else:
        def _plain(e: ast.AST, depth: int = 0) -> bool:
            if depth > 4:
                return False
            if isinstance(e, ast.Name):
                ds = [v for _s, v in assignments(pm_, e.id) if v is not None]
                return bool(ds) and all(_plain(d, depth + 1) for d in ds)
            if isinstance(e, ast.Call) and norm(e.func) == "cast" and len(e.args) == 2:
                return _plain(e.args[1], depth + 1)
            if isinstance(e, ast.Call) and isinstance(e.func, ast.Attribute) and e.func.attr == "group":
                return True
            if isinstance(e, ast.Subscript) and isinstance(e.slice, ast.Constant) and isinstance(e.value, ast.Name):
                return True
            if isinstance(e, ast.IfExp):
                return _plain(e.body, depth + 1) and (isinstance(e.orelse, ast.Constant) or _plain(e.orelse, depth + 1))
            return False
        okk = _plain(ast.Name(id=keyv, ctx=ast.Load()))
        kd = [v for _s, v in assignments(pm_, keyv) if v is not None]
        chk.ob("S25", "dependencies:_postprocess_media_tags:key-is-the-url", dm_.loc(kd[0]) if kd else dm_.loc(pm_), okk,
               f"`{keyv}` is the regex group of the tag's src / href attribute, unchanged" if okk else
               f"`{keyv} = {short(kd[0]) if kd else '?'}` transforms the URL before it is used as the dedupe key: two different files whose URLs agree after that transformation (same path, different query string) are taken for one, and the second is delivered 0 times in document mode and missing from toLoadCssTags / toLoadJsTags in fragment mode")
    chk.rule("S20", "twin-kind argument agreement, package-wide: an argument that names one script kind (`css_input_hash`, `.js_file`, 'css') is bound to a callee parameter / field of the same kind - the js / css twins have the same types, so a swap compiles and passes every single-kind test (shared with C19-S14, C16)")
    generic.kind_named_args(chk, "S20", proj, w.cg, ["component", "dependencies", "component_media", "components.dynamic"], floor=12)
    chk.borrow("S19", "every collected tag / URL reaches the output under its OWN kind: kind flow (js / css lattice) through _prepare_tags_and_urls, _process_dep_declarations, _gen_exec_script and render_dependencies - a Media(js=..) / Media(css=..) list, a ScriptType argument, a wire key or a placeholder replacement never receives the other kind, and no kind-carrying part of a helper's result is dropped (shared with C19-S11)",
               lambda sub: C19.s11_kind_flow(sub, proj, w))
    chk.borrow("S11", "scripts cached during a render are still there when the page's dependencies are collected: the library's own cache backend has an effective 'no limit' configuration (shared with C19-S7)",
               lambda sub: C19.s7_own_backend(sub, proj))


def check_inclusion(chk: Check, rule: str, key: str, loc: str, lang: Lang, alts: AbsStr, what: str, reader: str) -> bool:
    ok_all = True
    for alt in alts:
        ok, wit = lang.accepts_all(alt)
        chk.paths += 1
        if not ok:
            ok_all = False
            chk.violated(rule, key, loc, f"{what}: the writer can emit {wit!r} (shape {show(alt)}), which the reader {reader} does not match: the record is neither recognised nor removed",
                         detail={"writer_shape": show(alt), "counterexample": wit, "reader": str(lang.pattern)})
            break
    if ok_all:
        chk.holds(rule, key, loc, f"{what}: every string of the {len(alts)} writer shape(s) is fully matched by {reader}", detail={"writer_shapes": [show(a) for a in alts][:6]})
    return ok_all


def s1_records(chk: Check, proj: Project, ev: Evaluator) -> None:
    chk.rule("S1", "every string a record writer can emit is fully matched by its reader regex; field separators do not occur inside fields")
    hash_lang, hash_loc = class_hash_lang(proj, ev)
    whole, data, wloc = marker_writer(proj, ev, hash_lang)
    n = 0
    # 1. marker comment
    pat, fl, _ = compiled_regex(proj, "dependencies", "COMPONENT_COMMENT_REGEX")
    check_inclusion(chk, "S1", "dependencies:marker-comment-vs-COMPONENT_COMMENT_REGEX", wloc, Lang(pat, fl), whole, "dependency marker comment", "COMPONENT_COMMENT_REGEX")
    pat2, fl2, _ = compiled_regex(proj, "dependencies", "SCRIPT_NAME_REGEX")
    check_inclusion(chk, "S1", "dependencies:marker-data-vs-SCRIPT_NAME_REGEX", wloc, Lang(pat2, fl2), data, "marker data", "SCRIPT_NAME_REGEX")
    n += 2
    # separators: the data is split by ',' into exactly 4 fields
    for alt in data:
        seps = sum(s.text.count(",") for s in alt if s.kind == "lit")
        in_fields = [s for s in alt if s.kind == "field" and "," in s.alphabet]
        ok = seps == 3 and not in_fields
        chk.ob("S1", "dependencies:marker-data-separators", wloc, ok, "marker data has exactly 3 literal commas and no field can contain a comma" if ok else f"marker data shape {show(alt)}: {seps} literal commas, fields that may contain ',': {in_fields}")
        n += 1
        break
    # class hash is HTML-comment safe ('-' '-' '>' cannot occur)
    a = alphabet_of(hash_lang)
    chk.ob("S1", "misc:class-hash-alphabet", hash_loc, not ({"-", ">", "<", " ", ","} & a), f"class hash alphabet ({len(a)} representative chars) " + ("excludes" if not ({"-", ">", "<", " ", ","} & a) else "INCLUDES") + " comment/record metacharacters")
    n += 1

    # 2. dependency placeholders with root attributes
    shapes, sloc = root_attr_shapes(proj, ev)
    pm = proj.mod("dependencies")
    ppat, pfl, _ = compiled_regex(proj, "dependencies", "PLACEHOLDER_REGEX")
    plang = Lang(ppat, pfl)
    for cname, tail_opts in (("CSS_DEPENDENCY_PLACEHOLDER", [">", "/>"]), ("JS_DEPENDENCY_PLACEHOLDER", None)):
        ok_c, base = proj.try_fold(pm, pm.global_value(cname))
        if not ok_c or not isinstance(base, str):
            raise AnalysisError(f"anchor vanished: {cname} constant")
        # where attributes go: before the first '>' of the element
        gt = base.index(">")
        head, rest = base[:gt], base[gt:]
        rests = [rest] if tail_opts is None else [t + rest[1:] for t in tail_opts]
        # attribute sequences as the writer orders them: each enclosing component contributes its appended
        # attributes in source order (each optional), parents first. Unroll 0..2 enclosing components.
        per_comp: List[List[AbsStr]] = []
        opts = [[None] + [v] for _e, v in shapes]  # each shape optional (guarded by `if`)
        combos = [list(c) for c in itertools.product(*opts)]
        seqs: List[List[AbsStr]] = [[]]
        for depth in (1, 2):
            for combo in itertools.product(combos, repeat=depth):
                seq = [v for comp in combo for v in comp if v is not None]
                if seq not in seqs:
                    seqs.append(seq)
        bad = None
        total = 0
        for seq in seqs:
            for r in rests:
                s: AbsStr = lit(head)
                for v in seq:
                    s = concat(concat(concat(s, lit(" ")), v), lit('=""'))
                s = concat(s, lit(r))
                for alt in s:
                    total += 1
                    ok, wit = plang.accepts_all(simplify(alt))
                    chk.paths += 1
                    if not ok and bad is None:
                        bad = (wit, show(simplify(alt)), len(seq))
        key = f"dependencies:{cname}-with-root-attrs-vs-PLACEHOLDER_REGEX"
        n += 1
        if bad:
            chk.violated("S1", key, sloc, f"a {cname} that is the root element of {bad[2] // max(1, len(shapes)) or 1}+ component(s) is written as {bad[0]!r}, which PLACEHOLDER_REGEX does not match: the placeholder survives and nothing is inserted",
                         detail={"counterexample": bad[0], "shape": bad[1], "attribute_order": [e for e, _ in shapes]})
        else:
            chk.holds("S1", key, sloc, f"all {total} attribute sequences (0..2 enclosing components x optional attributes, writer order) are matched", detail={"attribute_shapes": [e for e, _ in shapes]})

    # 3. nested-component placeholder
    rp, rloc = render_placeholder_writer(proj, ev)
    npat, nfl, _ = compiled_regex(proj, "perfutil.component", "nested_comp_pattern")
    nl = Lang(npat, nfl)
    variants: AbsStr = []
    for alt in rp:
        txt_ok = alt and alt[-1].kind == "lit" and alt[-1].text.endswith("></template>")
        if not txt_ok:
            raise AnalysisError("nested placeholder writer has an unexpected shape: " + show(alt))
        variants.append(alt)
        # with attributes inserted before the first '>' by the HTML step
        for seq_len in (1, 2):
            for combo in itertools.product([v for _e, v in shapes], repeat=seq_len):
                pre = alt[:-1] + [Seg.lit(alt[-1].text[: -len("></template>")])]
                s2: AbsStr = [pre]
                for v in combo:
                    s2 = concat(concat(concat(s2, lit(" ")), v), lit('=""'))
                s2 = concat(s2, lit("></template>"))
                variants.extend(simplify(a) for a in s2)
    check_inclusion(chk, "S1", "perfutil.component:nested-placeholder-vs-nested_comp_pattern", rloc, nl, variants, "nested component placeholder (with up to 2 root attributes)", "nested_comp_pattern")
    n += 1
    chk.floor("S1", n, 7)


# ---------------------------------------------------------------------------------------------
def s8_dynamic_mode(chk: Check, proj: Project) -> None:
    chk.rule("S8", "the dynamic component renders its target in the SAME dependency mode: `type` and `render_dependencies` of its own input are forwarded to the inner render")
    m, f = proj.func("components.dynamic", "DynamicComponent.on_render_before")
    chk.analysed(fkey(m, f))
    rc = [c for c in calls(f, "render") if isinstance(c.func, ast.Attribute) and len(c.keywords) >= 3]
    if len(rc) != 1:
        chk.undecided("S8", "components.dynamic:on_render_before:render-call", m.loc(f), f"{len(rc)} inner render calls")
        return
    for fld in ("type", "render_dependencies"):
        v = kwarg(rc[0], fld)
        ok = v is not None and norm(v) == f"self.input.{fld}"
        chk.ob("S8", f"components.dynamic:on_render_before:forwards-{fld}", m.loc(rc[0]), ok, f"{fld}=self.input.{fld}" if ok else
               f"the inner render does not receive `{fld}` from the dynamic component's input (got `{short(v) if v is not None else 'nothing: the default applies'}`): a dynamic component rendered as a fragment renders its target as a document, the target's markers are consumed there and the fragment declares nothing to the client-side loader")


def s2_consumed(chk: Check, proj: Project, w) -> None:
    chk.rule("S2", "in render_dependencies the marker substitution (-> b'') and the placeholder substitution dominate every normal return, for both render types")
    m, f = proj.func("dependencies", "render_dependencies")
    chk.analysed("django_components.dependencies:render_dependencies")
    cfg = w.pair.cfgs.get(f)
    dom = cfg.dominators()
    ret_nodes = [n for n in cfg.nodes if n.kind == "return"]
    if not ret_nodes:
        raise AnalysisError("render_dependencies has no return")
    # placeholder substitution
    subs = [c for c in calls(f, "sub") if isinstance(c.func, ast.Attribute) and norm(c.func.value) == "PLACEHOLDER_REGEX"]
    ok = bool(subs) and all(any(cfg.dominates(sn, r, dom) for c in subs for sn in cfg.node_containing(c)) for r in ret_nodes)
    chk.ob("S2", "dependencies:render_dependencies:PLACEHOLDER_REGEX.sub", m.loc(subs[0]) if subs else m.loc(f), ok,
           "PLACEHOLDER_REGEX.sub(...) dominates every return" if ok else "a return of render_dependencies is reachable without PLACEHOLDER_REGEX.sub: placeholders survive on that path")
    # its result must flow into the returned content variable
    if subs:
        st = enclosing_stmt(subs[0])
        tgt = norm(st.targets[0]) if isinstance(st, ast.Assign) else None
        src = norm(subs[0].args[1]) if len(subs[0].args) > 1 else None
        chk.ob("S2", "dependencies:render_dependencies:placeholder-sub-rebinds-content", m.loc(st), tgt is not None and tgt == src,
               f"`{short(st)}` rebinds the content variable it reads" if tgt == src else f"result of the placeholder substitution is bound to {tgt!r} but computed from {src!r}")
    # marker substitution via _process_dep_declarations
    pc = calls(f, "_process_dep_declarations")
    ok = bool(pc) and all(any(cfg.dominates(sn, r, dom) for c in pc for sn in cfg.node_containing(c)) for r in ret_nodes)
    chk.ob("S2", "dependencies:render_dependencies:_process_dep_declarations", m.loc(pc[0]) if pc else m.loc(f), ok, "_process_dep_declarations(...) dominates every return" if ok else "a return is reachable without harvesting/removing the markers")
    m2, f2 = proj.func("dependencies", "_process_dep_declarations")
    chk.analysed("django_components.dependencies:_process_dep_declarations")
    cfg2 = w.pair.cfgs.get(f2)
    dom2 = cfg2.dominators()
    subs2 = [c for c in calls(f2, "sub") if isinstance(c.func, ast.Attribute) and norm(c.func.value) == "COMPONENT_COMMENT_REGEX"]
    rets2 = [n for n in cfg2.nodes if n.kind == "return"]
    ok = bool(subs2) and all(any(cfg2.dominates(sn, r, dom2) for c in subs2 for sn in cfg2.node_containing(c)) for r in rets2)
    chk.ob("S2", "dependencies:_process_dep_declarations:COMPONENT_COMMENT_REGEX.sub", m2.loc(subs2[0]) if subs2 else m2.loc(f2), ok, "COMPONENT_COMMENT_REGEX.sub(...) dominates every return" if ok else "markers are not removed on some path")
    if subs2:
        c = subs2[0]
        st = enclosing_stmt(c)
        tgt = norm(st.targets[0]) if isinstance(st, ast.Assign) else None
        # replacement function returns b""
        repl = c.args[0] if c.args else None
        empty = False
        if isinstance(repl, ast.Name):
            for n in body_walk(f2):
                if isinstance(n, ast.FunctionDef) and n.name == repl.id:
                    rs = [r for r in ast.walk(n) if isinstance(r, ast.Return)]
                    empty = bool(rs) and all(isinstance(r.value, ast.Constant) and r.value.value in (b"", "") for r in rs)
        elif isinstance(repl, ast.Constant):
            empty = repl.value in (b"", "")
        chk.ob("S2", "dependencies:_process_dep_declarations:marker-replacement-is-empty", m2.loc(c), empty, "the marker is replaced by the empty string" if empty else "the marker replacement is not the empty string: bookkeeping text survives")
        # the substituted content is what is returned first
        ret_first = [norm(r.ast.value.elts[0]) for r in rets2 if isinstance(r.ast, ast.Return) and isinstance(r.ast.value, ast.Tuple) and r.ast.value.elts]
        chk.ob("S2", "dependencies:_process_dep_declarations:returns-substituted-content", m2.loc(st), bool(ret_first) and all(x == tgt for x in ret_first) and len(assignments(f2, tgt or "")) == 1,
               f"the returned content is the result of the marker substitution (`{tgt}`)")
    chk.floor("S2", 5, 5)


# ---------------------------------------------------------------------------------------------
def s3_provenance(chk: Check, proj: Project, w) -> None:
    chk.rule("S3", "class hashes that reach comp_hash_mapping / script lookups derive from the marker regex match; comp_hash_mapping is only ever accessed by point lookup")
    g = w.inv.get("dependencies:comp_hash_mapping")
    if g is None:
        raise AnalysisError("anchor vanished: comp_hash_mapping")
    n = 0
    for a in accesses(proj, g):
        n += 1
        key = f"{a.mod.name.replace('django_components.', '')}:{short(a.stmt(), 80)}"
        if a.kind in ("read", "contains", "insert", "remove") and a.key is not None:
            chk.holds("S3", key, a.loc, f"point {a.kind} comp_hash_mapping[{short(a.key, 30)}]", nontrivial=False)
        elif a.kind == "attr":
            chk.holds("S3", key, a.loc, "non-observing use", nontrivial=False)
        else:
            chk.violated("S3", key, a.loc, f"`{short(a.stmt())}` observes ALL known component classes ({a.how}): classes that were not rendered into this document can contribute JS/CSS")
    chk.floor("S3", n, 3)
    # provenance in _process_dep_declarations
    m, f = proj.func("dependencies", "_process_dep_declarations")
    srcs = [s for s in stmts(f) if isinstance(s, (ast.Assign, ast.AnnAssign)) and isinstance(getattr(s, "target", None) or s.targets[0], ast.Name)]
    hash_vars = set()
    for s in srcs:
        tgt = (s.target if isinstance(s, ast.AnnAssign) else s.targets[0]).id
        if s.value is not None and any(isinstance(c, ast.Call) and last_attr(c.func) == "group" and c.args and isinstance(c.args[0], ast.Constant) and c.args[0].value == "comp_cls_hash" for c in ast.walk(s.value)):
            hash_vars.add(tgt)
    if not hash_vars:
        raise AnalysisError("_process_dep_declarations: no variable bound from match.group('comp_cls_hash')")
    feeders = []
    for c in calls(f, "append"):
        if isinstance(c.func, ast.Attribute) and isinstance(c.func.value, ast.Name) and c.func.value.id in ("comp_hashes", "comp_data", "inputs_data") and c.args:
            first = c.args[0].elts[0] if isinstance(c.args[0], ast.Tuple) else c.args[0]
            feeders.append((c, first))
    for c, first in feeders:
        ok = isinstance(first, ast.Name) and first.id in hash_vars and len(assignments(f, first.id)) == 1
        chk.ob("S3", f"dependencies:_process_dep_declarations:{short(c, 70)}", m.loc(c), ok, "scheduled class hash comes from the regex match on the content" if ok else f"`{short(c)}` schedules a class hash that is not the regex match group")
    chk.floor("S3-feeders", len(feeders), 3)


# ---------------------------------------------------------------------------------------------
def s4_once(chk: Check, proj: Project, w) -> None:
    chk.rule("S4", "seen-set loops: the skip guard is a membership test of the key alone, it precedes every scheduling statement of the iteration, and the key is recorded in the same iteration")
    m = proj.mod("dependencies")
    n = 0
    for q, f in m.funcs():
        for loop in [x for x in body_walk(f) if isinstance(x, ast.For)]:
            # candidate seen containers: local names that get `.add(K)` or `[K] = v` directly in this loop body
            recs = []
            for st in loop.body:
                if isinstance(st, ast.Expr) and isinstance(st.value, ast.Call) and isinstance(st.value.func, ast.Attribute) and st.value.func.attr == "add" and isinstance(st.value.func.value, ast.Name) and st.value.args:
                    recs.append((st, st.value.func.value.id, st.value.args[0]))
                if isinstance(st, ast.Assign) and len(st.targets) == 1 and isinstance(st.targets[0], ast.Subscript) and isinstance(st.targets[0].value, ast.Name) and "by_" in st.targets[0].value.id:
                    recs.append((st, st.targets[0].value.id, st.targets[0].slice))
            for rec_st, cont, keyexpr in recs:
                if not isinstance(keyexpr, ast.Name):
                    continue
                n += 1
                chk.analysed(f"django_components.dependencies:{q}")
                key = f"dependencies:{q}:dedupe:{cont}[{keyexpr.id}]"
                # guard: an `if` directly in the loop body, before rec_st, whose body is `continue`
                guards = [st for st in loop.body if isinstance(st, ast.If) and loop.body.index(st) < loop.body.index(rec_st) and st.body and isinstance(st.body[-1], ast.Continue) and cont in names_in(st.test)]
                if not guards:
                    chk.violated("S4", key, m.loc(rec_st), f"`{cont}` records `{keyexpr.id}` but no `if ... in {cont}: continue` guard precedes it in the loop: the same item is scheduled every time it appears")
                    continue
                gd = guards[0]
                t = gd.test
                is_member = isinstance(t, ast.Compare) and len(t.ops) == 1 and isinstance(t.ops[0], ast.In) and norm(t.left) == keyexpr.id and norm(t.comparators[0]) == cont
                if not is_member:
                    extra = names_in(t) - {keyexpr.id, cont}
                    if extra:
                        chk.violated("S4", key, m.loc(gd), f"dedupe guard `{short(t)}` depends on {sorted(extra)} besides the key `{keyexpr.id}`: two entries with the same key but a different value are both emitted")
                    else:
                        chk.undecided("S4", key, m.loc(gd), f"unrecognised dedupe idiom `{short(t)}`")
                    continue
                # nothing is scheduled before the guard
                before = loop.body[: loop.body.index(gd)]
                sched = [c for st in before for c in calls(st, "append")]
                chk.ob("S4", key, m.loc(gd), not sched, f"`if {keyexpr.id} in {cont}: continue` precedes all scheduling; key recorded in the same iteration" if not sched else f"`{short(sched[0])}` is executed before the dedupe guard")
                # the key is ONE field of the record (the class hash): a composite key that also contains per-instance fields
                # makes every distinct instance "new", so the per-class scheduling below the guard runs once per instance
                kd = [v for _s, v in assignments(f, keyexpr.id) if v is not None]
                composite = [v for v in kd if isinstance(v, (ast.Tuple, ast.List, ast.JoinedStr, ast.BinOp))]
                chk.ob("S4", key + ":key-is-one-field", m.loc(rec_st), not composite,
                       f"`{keyexpr.id}` is a single field of the record" if not composite else
                       f"the dedupe key `{keyexpr.id} = {short(composite[0])}` combines several fields: instances of one class that differ in their JS / CSS variables are all 'new', so the class's <script> / <style> is scheduled once per distinct instance instead of once per class")
    chk.floor("S4", n, 2)


def s5_fragment_guard(chk: Check, proj: Project) -> None:
    chk.rule("S5", "the emptiness guard of the fragment declaration script mentions every list that the payload contains")
    m, f = proj.func("dependencies", "_gen_exec_script")
    guard = next((st for st in f.body if isinstance(st, ast.If) and st.body and isinstance(st.body[-1], ast.Return)), None)
    if guard is None:
        raise AnalysisError("_gen_exec_script: emptiness guard not found")
    gnames = names_in(guard.test)
    ps = {a.arg for a in f.args.args}
    payload = set()
    for n in body_walk(f):
        if isinstance(n, ast.Dict):
            for v in n.values:
                payload |= names_in(v) & ps
    missing = payload - gnames
    chk.ob("S5", "dependencies:_gen_exec_script:guard-covers-payload", m.loc(guard), not missing and bool(payload),
           f"guard covers all {len(payload)} payload lists" if not missing else f"the guard returns None without looking at {sorted(missing)}: a fragment that only has those never declares them to the client-side loader")


def s6_marker_always_emitted(chk: Check, proj: Project, w) -> None:
    chk.rule("S6", "the deferred renderer emits the dependency marker for EVERY rendered instance: insert_component_dependencies_comment dominates every return and its result is what is returned")
    r = proj.try_func("component", "Component._gen_component_renderer.renderer")
    if r is None:
        raise AnalysisError("anchor vanished: Component._gen_component_renderer.renderer")
    m, f = r
    chk.analysed("django_components.component:Component._gen_component_renderer.renderer")
    cfg = w.pair.cfgs.get(f)
    dom = cfg.dominators()
    ic = calls(f, "insert_component_dependencies_comment")
    rets = [n for n in cfg.nodes if n.kind == "return"]
    ok = bool(ic) and bool(rets) and all(any(cfg.dominates(sn, rn, dom) for c in ic for sn in cfg.node_containing(c)) for rn in rets)
    chk.ob("S6", "component:renderer:marker-dominates-returns", m.loc(ic[0]) if ic else m.loc(f), ok,
           "every return of the renderer is dominated by insert_component_dependencies_comment(...)" if ok else
           "the renderer can return without inserting the dependency marker (an early-return shortcut): a component class whose instances take that path is never harvested, so its JS/CSS and Media are missing")
    if ic:
        st = enclosing_stmt(ic[0])
        tv = norm(st.targets[0]) if isinstance(st, ast.Assign) else None
        returned = [norm(n.ast.value.elts[0]) for n in rets if isinstance(n.ast, ast.Return) and isinstance(n.ast.value, ast.Tuple) and n.ast.value.elts]
        ok2 = tv is not None and bool(returned) and all(x == tv for x in returned)
        chk.ob("S6", "component:renderer:returns-marked-html", m.loc(st), ok2, f"the returned HTML is `{tv}`, the result of the marker insertion")
        cid = kwarg(ic[0], "component_cls")
        chk.ob("S6", "component:renderer:marker-class", m.loc(ic[0]), cid is not None and "__class__" in " ".join(norm(v) for _s, v in assignments(enclosing_func_of(f), norm(cid)) if v is not None) if cid is not None else False, "the marker names the class of the component being rendered")


def enclosing_func_of(f):
    from ..source import enclosing_func

    return enclosing_func(f) or f


MANIFEST = {
    "text": "Decides language inclusion writer ⊆ reader for every in-band record the dependency collection relies on (marker comment, placeholders with root attributes, nested-component placeholder): the writer language is derived from the source by abstract string evaluation (alphabets and lengths of class hash, render id, input hashes), the reader language from the regex parse tree as a DFA; plus must-pass-through of the two consuming substitutions, provenance of class hashes and dedupe-guard idioms. Holds for every class name / id / hash the writer can produce, which tests cannot enumerate. Also: the marker is emitted for every rendered instance, per-kind gating of default-location insertion, the dynamic component forwards the dependency mode, the middleware gate is not narrower than documented, emit/cache use the same predicate, and the library's own cache backend is configured with keys and values Django actually uses. Round 4: per-mode placeholder replacements, cache-key fields unchanged, every selected base contributes (shared with C08/C19/C16). Round 5: seen-set keys are one field, own class hash, give-up conditions (shared with C08-S12). Round 6: the end-tag scanner matches every valid </head> / </body> (shared with C08-S8). Round 7: safe slot content is not escaped again (shared with C13-S2); the Media collector has no shortcut deciding from `class Media` declarations.",
    "note": "Trusted: the external HTML step serialises added attributes as ` name=\"\"` in list order; hexdigest is lower-case hex; nanoid draws from its alphabet. Attribute sequences are unrolled to 2 enclosing components. Not decided: ordering by first appearance, Media content, fragment JSON content.",
    "technique": "abstract string evaluation (alphabet/length domain) + regex-to-DFA language inclusion; dominator-based must-pass-through",
}
