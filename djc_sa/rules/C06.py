"""C06 — a finished or failed render leaves nothing behind (DESIGN.md section 3, C06).

S0  inventory: every process-global mutable container is classified; unclassified state that render code inserts
    into must have a removal, else it can only grow.
S1a acquire / release-attempt pairing on every exceptional exit (with caller lifting through the key argument).
S1b ids are registered in the per-tree callbacks dict before hand-over, and nobody shrinks that dict.
S1c the tree-level error handler releases every component-id-keyed registry for every registered id.
S1d every per-render registry has a release on the normal path that is unconditional modulo its own key.
S2a every @contextmanager generator runs its post-yield cleanup on the exceptional continuation too.
S2b statement-form push ... pop pairs on objects that outlive the call have the pop on exceptional exits.
S3  exception identity: handlers on render paths re-raise the caught object (or same class); handler purity.
"""
from __future__ import annotations

import ast
from typing import Dict, List, Optional, Set, Tuple

from ..astq import assignments, calls, exc_class_of_raise, is_contextmanager, kwarg, local_from, params, raises_in, stmts
from ..callgraph import fkey
from ..cfg import CFG, always_exits, cond_atoms
from ..report import Check
from ..source import (
    AnalysisError,
    Project,
    ancestors,
    assign_targets,
    body_walk,
    dotted,
    enclosing_func,
    enclosing_stmt,
    last_attr,
    norm,
    parent,
    qual_of,
    short,
    walk_no_nested,
)
from ..state import accesses, keyspec
from .common import CLASSIFIED, COMPONENT_ID_KEYED, PER_RENDER, world

# handlers on render paths that legitimately do not re-raise (one named function + caught type + reason)
SWALLOW_OK = {
    ("components.dynamic", "DynamicComponent._resolve_component", "NotRegistered"): "registry search: try the next registry; NotRegistered is raised after the loop if none matched",
    ("component_media", "_get_asset", "TemplateDoesNotExist"): "asset lookup falls back to the next loader / raises its own error later",
    ("component_media", "resolve_file", "RuntimeError"): "inspect-based module lookup falls back to the unresolved path",
    ("component_media", "_get_dir_path_from_component_module_name", "RuntimeError"): "inspect-based module lookup falls back",
    ("util.loader", "get_component_dirs", "TypeError"): "tuple-form STATICFILES_DIRS entry is skipped",
    ("util.template_tag", "validate_params", "TypeError"): "the try covers only the library's own argument validators (no user code runs inside): they raise plain TypeError with a message, which is re-issued with the tag's name",
    ("app_settings", "InternalSettings._prepare_context_behavior", "ValueError"): "converted to a ValueError with the list of valid values (configuration time)",
}


def _borrow_r11(chk: Check, proj: Project, w) -> None:
    from . import C07 as _C07

    chk.borrow("S5", "nothing of a finished or FAILED render stays reachable through the compiled template: Node objects (which live as long as the Template stays in the cache) store nothing on themselves at render time - a Component instance cached on the tag node, with the render's outer Context assigned before the render and cleared after it without a finally, keeps a failed render's Context and everything in it alive (shared with C07-S1-A2)",
               lambda sub: _C07.s1a_nodes(sub, proj, w, _C07.reach_set(proj, w)), only=lambda o: "no-self-store" in o.construct)
    chk.rule("S3f", "an error raised by user code that the render calls through a SIGNAL reaches the caller: render-path code dispatches Django signals with send(), never with send_robust() (which catches every receiver's exception and returns it in a list nobody reads) - a receiver of `template_rendered` that raises during a nested component's deferred render would otherwise vanish and the page render 'succeed'")
    n = 0
    for m2, q, fn in proj.all_funcs():
        for c in [x for x in ast.walk(fn) if isinstance(x, ast.Call) and isinstance(x.func, ast.Attribute) and x.func.attr in ("send", "send_robust", "asend", "asend_robust") and any(k.arg == "sender" for k in x.keywords)]:
            n += 1
            okc = not c.func.attr.endswith("_robust")
            chk.ob("S3f", f"{m2.name.replace('django_components.', '')}:{q}:{short(c.func, 40)}:signal-errors-propagate", m2.loc(c), okc,
                   f"`{short(c.func)}(...)` lets a receiver's exception propagate" if okc else
                   f"`{short(c.func)}(...)` swallows every receiver's exception: user code (a receiver of the signal) fails during the render and the caller is never told")
    chk.floor("S3f", n, 1)
    chk.rule("S3g", "user code (a node's render, a filter expression's resolve) is never run as the element of a GENERATOR expression: PEP 479 turns a StopIteration raised inside a generator into RuntimeError('generator raised StopIteration'), so the exception the caller receives is no longer the one the user code raised (a list comprehension or a loop lets it through unchanged)")
    USER = {"render", "render_annotated", "resolve", "render_value_in_context"}

    def _gens(tree_: ast.AST):
        return [g for g in ast.walk(tree_) if isinstance(g, ast.GeneratorExp) and any(isinstance(c, ast.Call) and isinstance(c.func, ast.Attribute) and c.func.attr in USER for c in ast.walk(g.elt))]

    if len(_gens(ast.parse("def f(ns, c):\n    return ''.join(str(n.render(c)) for n in ns)\n"))) != 1:
        raise AnalysisError("C06-S3g positive fixture no longer matches: rule is broken")
    ng = 0
    for m2, q, fn in proj.all_funcs():
        for g in _gens(fn):
            if any(isinstance(a, (ast.FunctionDef, ast.AsyncFunctionDef)) and a is not fn for a in ancestors(g) if a is not fn) and False:
                continue
            ng += 1
            chk.violated("S3g", f"{m2.name.replace('django_components.', '')}:{q}:{short(g, 60)}:user-code-in-generator", m2.loc(g),
                         f"`{short(g)}` runs user code as the element of a generator expression: a filter / tag that raises StopIteration (`next(iter(empty))`) reaches the caller as RuntimeError('generator raised StopIteration') - the original exception type is replaced")
    chk.holds("S3g", "fixture:user-code-in-generator", "fixture.py:2", f"positive fixture matched (rule is alive); {ng} such generator(s) on the tree", nontrivial=False)


def run(chk: Check, proj: Project) -> None:
    chk.explanation = (
        "Static pairing analysis of the library's per-render registries and stacks over a statement-level CFG with "
        "exceptional edges: inventory of process-global state; acquire/release-attempt on every exceptional exit "
        "(same function, in-package context-manager exits, or all callers via the key argument); completeness of "
        "the tree-level error handler; exception-safe generator context managers and push/pop pairs; handlers "
        "re-raise the caught exception and cannot raise a different one while annotating it."
    )
    chk.not_decided = [
        "weak-reference unreachability and measured memory growth",
        "that the guard inside a release attempt is true at run time",
        "behaviour of later renders as an observable",
    ]
    chk.trusted_base = [
        "cleanup code inside except/finally blocks does not itself fail",
        "builtin container operations listed in pairing.TOTAL_* do not raise",
        "Django Context.update()/push() used in `with` pop on exit",
    ]
    w = world(proj)
    s0_inventory(chk, proj, w)
    s1a_pairing(chk, proj, w)
    s1bc_tree_handler(chk, proj, w)
    s1d_normal_release(chk, proj, w)
    s1e_release_guards(chk, proj, w)
    s2a_generators(chk, proj, w)
    s2b_push_pop(chk, proj, w)
    s3_handlers(chk, proj, w)
    s3b_live_iteration(chk, proj, w)
    s3c_queue_items_immutable(chk, proj, w)
    s3d_annotation(chk, proj, w)
    s3e_user_code_under_path(chk, proj, w)
    from . import C16

    chk.borrow("S4", "a render that fails while the class's files are being loaded leaves the CLASS as if it had never been tried: the 'resolved' flag is stored only after everything that can fail (a later render raises the same error again, and works once the file exists) (shared with C16-S4)",
               lambda sub: C16.s4(sub, proj, proj.mod("component_media")), only=lambda o: "resolved-is-last" in o.construct)
    _borrow_r11(chk, proj, w)
    chk.call_sites = w.cg.n_calls


# ---------------------------------------------------------------------------------------------
def s0_inventory(chk: Check, proj: Project, w) -> None:
    chk.rule("S0", "every process-global mutable container is classified; unclassified state written on render paths must be releasable")
    reach = w.render_reachable()
    n = 0
    for k, g in sorted(w.inv.items()):
        if g.kind == "instance" and g.detail.startswith("typing."):
            continue
        if g.kind.startswith("classattr") and g.name.endswith(".allowed_flags"):
            continue  # per-tag constant flag lists (read-only)
        n += 1
        if k in PER_RENDER:
            chk.holds("S0", k, g.mod.loc(g.node), f"per-render registry ({PER_RENDER[k]}); pairing checked by S1", nontrivial=False)
            continue
        if k in CLASSIFIED:
            cls, why = CLASSIFIED[k]
            if cls == "bounded-cache" and g.kind == "lru_cache" and g.detail == "unbounded":
                chk.violated("S0", k, g.mod.loc(g.node), "cache classified as bounded is an unbounded lru_cache")
            else:
                chk.holds("S0", k, g.mod.loc(g.node), f"{cls}: {why}", nontrivial=False)
            continue
        # unknown global state: decide from its accesses
        accs = accesses(proj, g) if g.kind != "lru_cache" else []
        ins = [a for a in accs if a.kind in ("insert", "elem-insert", "rebind") and a.func is not None and fkey(a.mod, a.func) in reach]
        rem = [a for a in accs if a.kind in ("remove", "elem-remove")]
        if g.kind == "lru_cache":
            ok = g.detail != "unbounded"
            chk.ob("S0", k, g.mod.loc(g.node), ok, f"new lru_cache ({g.detail})" + ("" if ok else ": unbounded memo on a render path retains arguments"))
        elif not ins:
            chk.holds("S0", k, g.mod.loc(g.node), "unclassified global container, but no insertion from render-reachable code")
        elif not rem:
            a = ins[0]
            chk.violated(
                "S0", k, a.loc,
                f"new process-global state `{g.name}` is written during rendering ({a.fq}: {short(a.stmt())}) and nothing ever removes from it: it retains per-render objects",
                detail={"declared": g.mod.loc(g.node), "writes": [x.loc for x in ins][:5]},
            )
        else:
            chk.undecided("S0", k, g.mod.loc(g.node), f"unclassified global container `{g.name}` written on render paths and removed somewhere: add it to the per-render table so that S1 checks its pairing")
    chk.floor("S0", n, 20)


# ---------------------------------------------------------------------------------------------
def _acquire_sites(w) -> List[Tuple]:
    """(module, func, cfg node, registry, keyspec, text) for direct insertions and for calls that return a fresh key."""
    out = []
    P = w.pair
    for fk, sites in sorted(w.summ.sites.items()):
        m, f = w.cg.funcs[fk]
        cfg = P.cfgs.get(f)
        for op, gk, keyexpr, site in sites:
            if op != "insert":
                continue
            base = gk[:-3] if gk.endswith("[*]") else gk
            if base not in PER_RENDER:
                continue
            nodes = cfg.node_containing(site)
            for n in nodes:
                out.append((m, f, n, gk, keyspec(f, keyexpr), short(enclosing_stmt(site))))
    # call sites of functions that insert under a key they *return* (set_provided_context_var)
    for fk, (m, f) in sorted(w.cg.funcs.items()):
        for tk, site, kind in w.cg.edges.get(fk, []):
            if kind != "call" or tk not in w.summ.total or not isinstance(site, ast.Call):
                continue
            for op, gk, spec in w.summ.total[tk]:
                if op == "insert" and spec == ("ret",):
                    cs = w.summ._map_through_call(w.cg.funcs[tk][1], site, spec, f, isinstance(site.func, ast.Attribute))
                    if cs[0] == "hidden":
                        continue
                    cfg = P.cfgs.get(f)
                    for n in cfg.node_containing(site):
                        out.append((m, f, n, gk, cs, short(enclosing_stmt(site))))
    return out


def s1a_pairing(chk: Check, proj: Project, w) -> None:
    chk.rule("S1a", "after an insertion into a per-render registry, every raising statement is followed on its exceptional continuation by a release attempt for the same key (same function, in-package context manager exit, or every caller)")
    P = w.pair
    sites = _acquire_sites(w)
    seen = set()
    count = 0
    for m, f, node, gk, key, text in sites:
        ck = f"{m.name.replace('django_components.', '')}:{qual_of(f)}:{text}:{gk.split(':')[1]}"
        if ck in seen:
            continue
        seen.add(ck)
        count += 1
        chk.analysed(fkey(m, f))
        start = [s for s, lab in node.succ if lab not in ("x", "p")]
        probs = P.unprotected(m, f, start, gk, key, False)
        chk.paths += 1
        if not probs:
            chk.holds("S1a", ck, m.loc(node.ast), f"every exceptional exit after `{text}` reaches a release attempt for {gk.split(':')[1]}[{key[-1]}]")
        else:
            p0 = probs[0]
            where = f"{p0['module'].rel}:{p0['line']}" if p0["line"] else m.loc(node.ast)
            chk.violated(
                "S1a", ck, where,
                f"entry inserted by `{text}` into {gk.split(':')[1]} leaks when `{p0['raiser']}` raises: no release attempt for key {key[-1]!r} on the path "
                + " <- ".join(x.split(":")[1] for x in p0["trail"]) + " to the library boundary",
                detail={"acquire": m.loc(node.ast), "unprotected_raisers": [f"{x['module'].rel}:{x['line']} {x['raiser']}" for x in probs[:6]]},
            )
    chk.floor("S1a", count, 8)


# ---------------------------------------------------------------------------------------------
def s1bc_tree_handler(chk: Check, proj: Project, w) -> None:
    chk.rule("S1b", "a component id is stored in the per-tree callbacks dict before the component is handed to component_post_render, and nothing removes ids from that dict")
    chk.rule("S1c", "the tree-level error handler iterates the callbacks dict and releases every component-id-keyed registry for each id")
    m, f = proj.func("perfutil.component", "component_post_render")
    chk.analysed(fkey(m, f))
    ps = params(f)
    cb_param = next((p for p in ps if "callback" in p), None)
    if cb_param is None:
        raise AnalysisError("component_post_render: callbacks parameter not found")
    # S1c: handler that loops over the callbacks dict
    loops = []
    for st in stmts(f):
        in_finally = any(isinstance(a, ast.Try) and any(x is st or any(y is st for y in ast.walk(x)) for x in a.finalbody) for a in ancestors(st))
        if isinstance(st, ast.For) and (any(isinstance(a, ast.ExceptHandler) for a in ancestors(st)) or in_finally):
            it = st.iter
            base = it.func.value if isinstance(it, ast.Call) and isinstance(it.func, ast.Attribute) and it.func.attr in ("keys", "copy") else it
            if isinstance(it, ast.Call) and isinstance(it.func, ast.Name) and it.func.id in ("list", "tuple", "set") and it.args:
                base = it.args[0]
                if isinstance(base, ast.Call) and isinstance(base.func, ast.Attribute) and base.func.attr in ("keys", "copy"):
                    base = base.func.value
            if isinstance(base, ast.Name) and base.id == cb_param and isinstance(st.target, ast.Name):
                loops.append(st)
    if not loops:
        chk.violated("S1c", "perfutil.component:component_post_render:tree-handler", m.loc(f),
                     "component_post_render has no error handler that iterates the callbacks dict: registry entries of already registered components leak when the deferred rendering fails")
    else:
        loop = loops[0]
        var = loop.target.id  # type: ignore[union-attr]
        handler = next((a for a in ancestors(loop) if isinstance(a, ast.ExceptHandler)), None)
        fin_try = next((a for a in ancestors(loop) if isinstance(a, ast.Try) and any(any(y is loop for y in ast.walk(x)) for x in a.finalbody)), None) if handler is None else None
        eff = set()
        for c in calls(loop.body):
            for op, gk, spec in w.summ.call_effects(m, f, c):
                if op == "remove" and spec[-1] == var:
                    eff.add(gk)
        for op, gk, keyexpr, site in w.summ.sites.get(fkey(m, f), []):
            if op == "remove" and isinstance(keyexpr, ast.Name) and keyexpr.id == var and any(a is loop for a in ancestors(site)):
                eff.add(gk)
        for gk in COMPONENT_ID_KEYED:
            ok = gk in eff
            chk.ob("S1c", f"perfutil.component:component_post_render:handler-releases:{gk.split(':')[1]}", m.loc(loop), ok,
                   f"tree-level handler {'releases' if ok else 'does NOT release'} {gk.split(':')[1]}[{var}] for every registered id")
        # ... unconditionally: every release sits directly in the loop body and nothing can skip the rest of an iteration
        # (which entries a component still holds does not follow from which of them are already gone)
        jumps = [x for x in ast.walk(loop) if isinstance(x, (ast.Continue, ast.Break, ast.Return))]
        nested = [c for c in calls(loop.body) if enclosing_stmt(c) not in loop.body and any(op == "remove" for op, _g, _s in w.summ.call_effects(m, f, c))]
        chk.ob("S1c", "perfutil.component:component_post_render:handler-releases-unconditionally", m.loc((jumps or nested or [loop])[0]), not jumps and not nested,
               "the sweep has no continue / break and no conditional release" if not jumps and not nested else
               f"`{short(enclosing_stmt((jumps or nested)[0]))}` lets the sweep skip releases for some ids: a component whose renderer was already taken (it was being rendered when the error happened) keeps its context entry and provide references for good")
        # handler must re-raise (a `finally` re-raises by itself unless it returns / breaks out)
        if handler is not None:
            ok = always_exits(handler.body) and isinstance(handler.body[-1], ast.Raise)
            chk.ob("S1c", "perfutil.component:component_post_render:handler-reraises", m.loc(handler), ok, "tree-level handler ends in a re-raise")
        else:
            swallow = [x for st_ in fin_try.finalbody for x in ast.walk(st_) if isinstance(x, (ast.Return, ast.Break, ast.Continue)) and not any(isinstance(a, (ast.For, ast.While)) and any(a is y for st2 in fin_try.finalbody for y in ast.walk(st2)) for a in ancestors(x))]  # type: ignore[union-attr]
            chk.ob("S1c", "perfutil.component:component_post_render:handler-reraises", m.loc(fin_try), not swallow, "the sweep is a `finally` block without return: the error goes on to the caller")
        # the sweep also runs when the tree rendered WITHOUT an error: a nested component whose placeholder did not make it into
        # the final HTML (cut away by a {% filter %}, replaced by on_render_after) is registered but never collected
        chk.ob("S1c", "perfutil.component:component_post_render:sweep-on-normal-path-too", m.loc(loop), handler is None,
               "the sweep sits in `finally`: what a successful render registered and nothing collected is released as well" if handler is None else
               "the sweep runs only in the `except` handler: after a SUCCESSFUL render, a nested component whose placeholder was dropped from the output (`{% filter cut:.. %}{% component .. %}{% endfilter %}`, an on_render_after that replaces the HTML) keeps its renderer, its context entry and its provide references for the life of the process")
        # the try it belongs to must cover the call that runs the queue
        t = parent(handler) if handler is not None else fin_try
        covered = [c for st in t.body for c in calls(st)] if isinstance(t, ast.Try) else []  # type: ignore[union-attr]
        qk = [c for c in covered if (tg := w.cg.resolve_callee(m, c, c.func)) is not None and any(
            isinstance(x, ast.While) for x in ast.walk(tg[1]))]
        inline_loop = isinstance(t, ast.Try) and any(isinstance(x, ast.While) for st in t.body for x in ast.walk(st))
        chk.ob("S1c", "perfutil.component:component_post_render:handler-covers-queue", m.loc(t), bool(qk) or inline_loop,
               "the queue loop that runs renderers and callbacks executes inside the protected try")

    # S1b: in every caller, callbacks[<id>] = ... dominates the call, same dict, same id
    fk = fkey(m, f)
    callers = [e for e in w.cg.callers(fk) if isinstance(e[1], ast.Call)]
    chk.floor("S1b", len(callers), 1)
    for ck, site, _k in callers:
        cm, cf = w.cg.funcs[ck]
        chk.analysed(ck)
        id_expr = kwarg(site, "render_id") or (site.args[1] if len(site.args) > 1 else None)
        cb_expr = kwarg(site, cb_param) or (site.args[ps.index(cb_param)] if len(site.args) > ps.index(cb_param) else None)
        key = f"{cm.name.replace('django_components.', '')}:{qual_of(cf)}:registers-callback"
        if not (isinstance(id_expr, ast.Name) and isinstance(cb_expr, ast.Name)):
            chk.undecided("S1b", key, cm.loc(site), "render id / callbacks argument is not a plain variable")
            continue
        cfg = w.pair.cfgs.get(cf)
        call_nodes = cfg.node_containing(site)
        stores = [
            n for n in cfg.nodes
            if n.kind == "stmt" and isinstance(n.ast, ast.Assign) and any(
                isinstance(t, ast.Subscript) and isinstance(t.value, ast.Name) and t.value.id == cb_expr.id
                and isinstance(t.slice, ast.Name) and t.slice.id == id_expr.id for t in n.ast.targets)
        ]
        dom = cfg.dominators()
        ok = bool(stores) and all(any(cfg.dominates(sn, cn, dom) for sn in stores) for cn in call_nodes)
        chk.ob("S1b", key, cm.loc(site), ok,
               f"`{cb_expr.id}[{id_expr.id}] = ...` {'dominates' if ok else 'does NOT dominate'} the hand-over call to component_post_render")
    # nobody shrinks the callbacks dict while the tree renders
    shrink = []
    for fm, q, fn in proj.all_funcs():
        if fm.name.endswith("perfutil.component") or q.startswith("Component._render"):
            for n in body_walk(fn):
                if isinstance(n, ast.Call) and isinstance(n.func, ast.Attribute) and n.func.attr in ("pop", "popitem", "clear") and isinstance(n.func.value, ast.Name) and "callback" in n.func.value.id and "rendered" in n.func.value.id + cb_param:
                    shrink.append((fm, n))
                if isinstance(n, ast.Delete):
                    for t in n.targets:
                        if isinstance(t, ast.Subscript) and isinstance(t.value, ast.Name) and "callback" in t.value.id:
                            shrink.append((fm, n))
    for fm, n in shrink:
        chk.violated("S1b", f"{fm.name.replace('django_components.', '')}:{qual_of(n)}:{short(enclosing_stmt(n))}", fm.loc(n),
                     f"`{short(n)}` removes an id from the per-tree callbacks dict: the tree-level error handler iterates that dict, so a component that fails afterwards is no longer released")
    if not shrink:
        chk.holds("S1b", "perfutil.component:callbacks-dict-never-shrinks", m.loc(f), "no pop/del/clear on the callbacks dict in the render-tree code")


# ---------------------------------------------------------------------------------------------
def s1e_release_guards(chk: Check, proj: Project, w) -> None:
    chk.rule("S1e", "a release function may return early only on a test of ITS key (`key not in registry`): whether OTHER state is empty says nothing about whether this key is registered")
    m, f = proj.func("perfutil.provide", "unregister_provide_reference")
    chk.analysed(fkey(m, f))
    key = params(f)[0]
    n = 0
    for st in f.body:
        if isinstance(st, ast.If) and always_exits(st.body) and any(isinstance(x, ast.Return) for x in st.body):
            n += 1
            parts = st.test.values if isinstance(st.test, ast.BoolOp) and isinstance(st.test.op, ast.Or) else [st.test]
            foreign = [p_ for p_ in parts if not any(isinstance(x, ast.Name) and x.id == key for x in ast.walk(p_))]
            chk.ob("S1e", f"perfutil.provide:unregister_provide_reference:early-return:{short(st.test, 50)}", m.loc(st), not foreign,
                   f"`{short(st.test)}` tests the key only" if not foreign else
                   f"`{short(foreign[0])}` makes the release return early without looking at `{key}`: a component that registered while another provider's data was alive and unregisters after that data is gone stays in all_reference_ids for good (one entry per render)")
    chk.floor("S1e", n, 1)
    # the id itself leaves the id table whatever the providers' tables hold: the removal is a statement of the function body
    idrm = [c for c in ast.walk(f) if isinstance(c, ast.Call) and isinstance(c.func, ast.Attribute) and c.func.attr in ("remove", "discard", "pop") and norm(c.func.value) == "all_reference_ids"]
    direct = [c for c in idrm if enclosing_stmt(c) in f.body]
    chk.ob("S1e", "perfutil.provide:unregister_provide_reference:id-removed-unconditionally", m.loc((idrm or [f])[0]), bool(direct),
           "`all_reference_ids` loses the id on every path past the early return" if direct else
           f"`{short(enclosing_stmt(idrm[0])) if idrm else 'no removal'}` runs only for ids that some provider still lists: a component that registered while an UNRELATED {{% provide %}} was alive (a sibling after `{{% provide %}}..{{% endprovide %}}`) is never forgotten - one id per render, successful or failed")
    for lp in [x for x in ast.walk(f) if isinstance(x, ast.For)]:
        brk = [x for x in ast.walk(lp) if isinstance(x, (ast.Break, ast.Return)) and next((a for a in ancestors(x) if isinstance(a, (ast.For, ast.While))), None) is lp]
        chk.ob("S1e", "perfutil.provide:unregister_provide_reference:visits-every-provider", m.loc(brk[0]) if brk else m.loc(lp), not brk,
               "the loop over the providers has no break / return: the reference is removed from every provider that holds it" if not brk else
               f"`{short(enclosing_stmt(brk[0]))}` stops at the first provider whose data was released: a component inside two or more {{% provide %}} tags is removed from only one, the other payload and its reference set stay for good")


def s1d_normal_release(chk: Check, proj: Project, w) -> None:
    chk.rule("S1d", "each per-render registry has a removal outside error handlers that cannot be bypassed on the normal path except through tests on its own key / the registries themselves")
    reg_names = {g.name for g in w.registries().values()}
    for gk, g in w.registries().items():
        accs = w.summ.acc[gk]
        rems = [a for a in accs if a.kind == "remove" and a.func is not None and not any(isinstance(x, ast.ExceptHandler) for x in ancestors(a.node))]
        key = f"{gk}:normal-release"
        if not rems:
            chk.violated("S1d", key, g.mod.loc(g.node), f"no removal from {g.name} outside error handlers: entries of successful renders are never released")
            continue
        good = []
        why_bad = ""
        for a in rems:
            f = a.func
            allowed = set(reg_names) | {"None", "len", "list", "set"}
            if a.key is not None:
                allowed |= {x.id for x in ast.walk(a.key) if isinstance(x, ast.Name)}
            # locals derived from a registry (aliases of its elements) talk about the registry too
            for n in body_walk(f):
                if isinstance(n, (ast.Assign, ast.AnnAssign)) and n.value is not None and any(isinstance(x, ast.Name) and x.id in reg_names for x in ast.walk(n.value)):
                    for t in (n.targets if isinstance(n, ast.Assign) else [n.target]):
                        allowed |= {x.id for x in ast.walk(t) if isinstance(x, ast.Name)}
            cfg = w.pair.cfgs.get(f)
            nodes = set(cfg.node_containing(a.node))
            blocked = set(nodes)
            for n in cfg.nodes:
                if n.kind == "test" and n.ast is not None and not n.meta.get("loop"):
                    if {x.id for x in ast.walk(n.ast) if isinstance(x, ast.Name)} <= allowed:
                        blocked.add(n)
            loop = next((x for x in ancestors(a.node) if isinstance(x, (ast.While, ast.For))), None)
            if loop is not None and enclosing_func(loop) is f:
                hdr = [n for n in cfg.nodes if n.meta.get("owner") is loop and n.meta.get("loop")]
                starts = [s2 for h in hdr for s2, lab in h.succ if lab == "T"]
                ends = set(hdr)
            else:
                starts = [cfg.entry]
                ends = {cfg.exit}
            seen = set()
            todo = [x for x in starts if x not in blocked]
            bypass = False
            while todo:
                n = todo.pop()
                if n.id in seen:
                    continue
                seen.add(n.id)
                if n in ends:
                    bypass = True
                    break
                for s2, lab in n.succ:
                    if lab in ("x", "p") or s2 in blocked:
                        continue
                    todo.append(s2)
            if not bypass:
                good.append(a)
            else:
                why_bad = f"`{short(a.stmt())}` in {a.fq.split(':')[1]} can be bypassed on a normal path through a test on unrelated data"
        if good:
            a = good[0]
            chk.holds("S1d", key, a.loc, f"`{short(a.stmt())}` in {a.fq.split(':')[1]} releases {g.name} on every normal path (modulo tests on its own key)")
        else:
            a = rems[0]
            chk.violated("S1d", key, a.loc, f"every normal-path removal from {g.name} can be skipped: {why_bad}")


# ---------------------------------------------------------------------------------------------
def s2a_generators(chk: Check, proj: Project, w) -> None:
    chk.rule("S2a", "a @contextmanager generator that does anything after its yield does the same on the exceptional continuation (try/finally, with, or a handler that repeats it)")
    n = 0
    for m, q, f in proj.all_funcs():
        if not is_contextmanager(f):
            continue
        n += 1
        chk.analysed(fkey(m, f))
        cfg = w.pair.cfgs.get(f)
        ynodes = [x for x in cfg.nodes if x.ast is not None and x.kind == "stmt" and any(isinstance(y, (ast.Yield, ast.YieldFrom)) for y in walk_no_nested(x.ast, enter_root=False))]
        key = f"{m.name.replace('django_components.', '')}:{q}:post-yield-cleanup"
        if len(ynodes) == 0:
            chk.undecided("S2a", key, m.loc(f), "no yield statement found in generator context manager")
            continue
        missing = []
        for y in ynodes:
            after = cfg.reachable_from([s for s, lab in y.succ if lab not in ("x", "p")])
            exc = cfg.reachable_from([s for s, lab in y.succ if lab == "x"])

            def sig(x):
                return (x.kind if x.kind != "stmt" else "s", norm(x.ast)) if x.ast is not None else None

            exc_sigs = {sig(x) for x in exc if x.ast is not None}
            for x in after:
                if x.kind in ("stmt", "with_exit") and x.ast is not None and not isinstance(x.ast, (ast.Pass,)):
                    if x.kind == "stmt" and not any(isinstance(c, (ast.Call, ast.Delete, ast.Assign, ast.AugAssign)) for c in ast.walk(x.ast)):
                        continue
                    if sig(x) not in exc_sigs:
                        missing.append(x)
        if missing:
            x = missing[0]
            chk.violated("S2a", key, m.loc(x.ast), f"`{short(x.ast)}` runs after the yield only when the with-body finishes normally; when the body raises it is skipped (yield not inside try/finally)")
        else:
            chk.holds("S2a", key, m.loc(f), "post-yield cleanup is also on the exceptional continuation (or there is none)")
    chk.floor("S2a", n, 6)


# ---------------------------------------------------------------------------------------------
_PUSH = {"push", "append", "insert", "appendleft"}
_POP = {"pop", "popleft"}


PUBLIC_ENTRIES = [
    ("component", "Component.render"), ("component", "Component.render_to_response"), ("component", "ComponentNode.render"),
    ("slots", "SlotNode.render"), ("slots", "FillNode.render"), ("provide", "ProvideNode.render"),
    ("attributes", "HtmlAttrsNode.render"), ("components.dynamic", "DynamicComponent.on_render_before"),
]


def caller_held_params(proj: Project, w) -> Dict[str, Set[str]]:
    """(function key -> parameter names) that can be bound to an object the *caller of the library* holds:
    parameters of public entry points, propagated through in-package calls whose argument is that plain name."""
    held: Dict[str, Set[str]] = {}
    todo: List[Tuple[str, str]] = []
    for mod, q in PUBLIC_ENTRIES:
        r = proj.try_func(mod, q)
        if r is None:
            continue
        k = f"{r[0].name}:{q}"
        for p in params(r[1]):
            if p not in ("self", "cls"):
                held.setdefault(k, set()).add(p)
                todo.append((k, p))
    while todo:
        k, p = todo.pop()
        m, f = w.cg.funcs[k]
        for tk, site, kind in w.cg.edges.get(k, []):
            if kind != "call" or not isinstance(site, ast.Call):
                continue
            callee = w.cg.funcs[tk][1]
            cps = params(callee)
            off = 1 if isinstance(site.func, ast.Attribute) and cps[:1] in (["self"], ["cls"]) else 0
            for i, a in enumerate(site.args):
                if isinstance(a, ast.Name) and a.id == p and i + off < len(cps):
                    cp = cps[i + off]
                    if cp not in held.setdefault(tk, set()):
                        held[tk].add(cp)
                        todo.append((tk, cp))
            for kw in site.keywords:
                if kw.arg and isinstance(kw.value, ast.Name) and kw.value.id == p and kw.arg in cps:
                    if kw.arg not in held.setdefault(tk, set()):
                        held[tk].add(kw.arg)
                        todo.append((tk, kw.arg))
    return held


def s2b_push_pop(chk: Check, proj: Project, w) -> None:
    chk.rule("S2b", "statement-form push/insert ... pop pairs on an object the library's caller holds (a parameter bound from a public entry point, or `self` of a Component): the pop is also reached when a statement in between raises")
    reach = w.render_reachable()
    held = caller_held_params(proj, w)
    n = 0
    for m, q, f in proj.all_funcs():
        fk = f"{m.name}:{q}"
        if fk not in reach:
            continue
        cfg: Optional[CFG] = None
        pushes: List[Tuple[ast.Call, str, bool]] = []
        for st in stmts(f):
            if isinstance(st, ast.Expr) and isinstance(st.value, ast.Call) and isinstance(st.value.func, ast.Attribute) and st.value.func.attr in _PUSH:
                recv = norm(st.value.func.value)
                root = recv.split(".")[0].split("[")[0]
                is_held = root in held.get(fk, set()) or (root == "self" and q.startswith("Component."))
                if "." not in recv and not (is_held and st.value.func.attr == "push"):
                    continue  # a local list / queue (a held Context's own push()/pop() does count)
                if root in params(f) or enclosing_func(f) is not None:
                    pushes.append((st.value, recv, is_held))
        for call, recv, is_held in pushes:
            pops = [s for s in stmts(f) if isinstance(s, ast.Expr) and isinstance(s.value, ast.Call) and isinstance(s.value.func, ast.Attribute) and s.value.func.attr in _POP and norm(s.value.func.value) == recv]
            if not pops:
                continue  # a push without a pop in the same function is not a pair (queue fill, result list)
            n += 1
            chk.analysed(fk)
            cfg = cfg or w.pair.cfgs.get(f)
            # keyed by function + receiver role + method (not by statement text / local spelling)
            root = recv.split(".")[0].split("[")[0]
            role = f"<param#{params(f).index(root)}>" + recv[len(root):] if root in params(f) else recv
            same = [c for c, r_, _h in pushes if r_ == recv and c.func.attr == call.func.attr]
            key = f"{m.name.replace('django_components.', '')}:{q}:{role}.{call.func.attr}" + (f"#{same.index(call)}" if len(same) > 1 else "")
            pn = cfg.node_containing(call)
            pop_nodes = {x for p in pops for x in cfg.nodes_of(p)}
            start = [s for x in pn for s, lab in x.succ if lab not in ("x", "p")]
            seen: Set[int] = set()
            todo = list(start)
            cause: Dict[int, Optional[object]] = {}
            while todo:
                x = todo.pop()
                if x.id in seen or x in pop_nodes:
                    continue
                seen.add(x.id)
                if x is cfg.exc_exit:
                    break
                strong = w.pair.strong_raiser(m, x)
                for s2, lab in x.succ:
                    if lab == "x" and not strong:
                        continue
                    cause.setdefault(s2.id, x if lab == "x" else cause.get(x.id))
                    todo.append(s2)
            if cfg.exc_exit.id in seen:
                r = cause.get(cfg.exc_exit.id)
                rtxt = short(r.ast) if r is not None and getattr(r, "ast", None) is not None else "?"
                if is_held:
                    chk.violated("S2b", key, m.loc(call),
                                 f"`{short(enclosing_stmt(call))}` is undone by `{short(pops[0])}` only on the normal path; if `{rtxt}` raises, the caller-held {recv} keeps the pushed entry",
                                 detail={"raiser": m.loc(r.ast) if r is not None and getattr(r, 'ast', None) is not None else None})
                else:
                    chk.holds("S2b", key, m.loc(call), f"pop of {recv} is skipped when `{rtxt}` raises, but the receiver is not provably held by the library's caller (not bound from a public entry parameter): out of the rule's scope", nontrivial=False)
            else:
                chk.holds("S2b", key, m.loc(call), f"`{recv}` pop is reached on every exceptional continuation")
    chk.floor("S2b", n, 2)


# ---------------------------------------------------------------------------------------------
def s3_handlers(chk: Check, proj: Project, w) -> None:
    chk.rule("S3", "every except handler on a render path re-raises the caught object or the same class (table of reviewed exceptions), and computes nothing on the exception payload that could raise a different exception")
    reach = w.render_reachable()
    extra = {f"{m.name}:{q}" for m, q, f in proj.all_funcs() if m.name.endswith(("util.exception", "perfutil.provide", "perfutil.component"))}
    n = 0
    for m, q, f in proj.all_funcs():
        fk = f"{m.name}:{q}"
        if fk not in reach and fk not in extra:
            continue
        for h in [x for x in body_walk(f) if isinstance(x, ast.ExceptHandler)]:
            n += 1
            chk.analysed(fk)
            caught = norm(h.type) if h.type is not None else "BaseException"
            key = f"{m.name.replace('django_components.', '')}:{q}:except {caught}"
            tbl = SWALLOW_OK.get((m.name.replace("django_components.", ""), q, caught))
            # identity
            rs = raises_in(h.body)
            ok_id = always_exits(h.body) and bool(rs)
            why = ""
            for r in rs:
                cls = exc_class_of_raise(r)
                if cls is None:
                    continue
                if h.name and isinstance(r.exc, ast.Name) and r.exc.id == h.name:
                    continue
                if h.name and cls in (f"{h.name}.__class__", f"type({h.name})"):
                    continue
                if isinstance(r.exc, ast.Call) and norm(r.exc.func) in (f"{h.name}.__class__", f"type({h.name})"):
                    continue
                if cls == caught and not isinstance(r.exc, ast.Call):
                    continue
                ok_id = False
                why = (f"raises a NEW {cls}(...) in place of the caught object: an instance of a SUBCLASS (a user's `SchemaError(TypeError)`) reaches the caller as a plain {cls}, a different object without the attributes and component path the original carried"
                       if cls == caught else f"raises {cls} instead of the caught {caught}")
            if not always_exits(h.body) or not rs:
                why = "does not re-raise on every path (exception swallowed)"
                ok_id = False
            if not ok_id and tbl:
                chk.holds("S3", key, m.loc(h), f"reviewed exception: {tbl}", nontrivial=False)
            else:
                chk.ob("S3", key, m.loc(h), ok_id, "handler re-raises the caught exception" if ok_id else f"handler {why}: the original exception type does not reach the caller")
            # purity (only for handlers that annotate and re-raise)
            if ok_id and h.name:
                _purity(chk, m, q, h)
    chk.floor("S3", n, 6)


def _purity(chk: Check, m, q: str, h: ast.ExceptHandler) -> None:
    e = h.name
    key = f"{m.name.replace('django_components.', '')}:{q}:except-purity"
    bad: List[Tuple[ast.AST, str]] = []
    # a local whose definitely-reaching definition (nearest earlier assignment in the same or an enclosing block) is a raw
    # payload value <e>.args[i], i.e. not passed through a total conversion such as str()
    def reaching_raw(use: ast.AST, name: str) -> bool:
        st = enclosing_stmt(use)
        while st is not None and st is not h:
            par = parent(st)
            for blk in (getattr(par, "body", None), getattr(par, "orelse", None), getattr(par, "finalbody", None)):
                if isinstance(blk, list) and st in blk:
                    for prev in reversed(blk[: blk.index(st)]):
                        if isinstance(prev, ast.Assign) and any(isinstance(t, ast.Name) and t.id == name for t in prev.targets):
                            v = prev.value
                            return isinstance(v, ast.Subscript) and norm(v.value) == f"{e}.args"
                        if any(isinstance(x, ast.Name) and x.id == name and isinstance(x.ctx, ast.Store) for x in ast.walk(prev)):
                            return False  # assigned somewhere inside an earlier compound statement: not definite
            st = par if isinstance(par, ast.stmt) else None
        return False

    for n in (x for st in h.body for x in walk_no_nested(st)):
        if isinstance(n, ast.Attribute) and isinstance(parent(n), ast.Call) and parent(n).func is n and isinstance(n.value, ast.Name) and reaching_raw(n, n.value.id):  # type: ignore[union-attr]
            bad.append((n, f"`{short(parent(n))}` calls a str method on `{n.value.id}`, which holds the raw exception payload: a non-string payload (raise MyErr(123)) turns the error into AttributeError"))
        if isinstance(n, ast.BinOp):
            for x in (n.left, n.right):
                if isinstance(x, ast.Name) and reaching_raw(n, x.id):
                    bad.append((n, f"`{short(n)}` concatenates `{x.id}`, which holds the raw exception payload"))
        # <e>.args[i] must be guarded by a non-empty test
        if isinstance(n, ast.Subscript) and norm(n.value) == f"{e}.args" and not isinstance(n.slice, ast.Slice):
            atoms = cond_atoms(n)
            if not any(pol and (f"len({e}.args)" in t or t == f"{e}.args") for t, pol in atoms):
                bad.append((n, f"`{short(n)}` without a non-empty test of {e}.args: an exception raised with no arguments turns into IndexError"))
        # method call / subscript / arithmetic on a payload value not passed through str()
        if isinstance(n, ast.Attribute) and isinstance(parent(n), ast.Call) and parent(n).func is n:  # type: ignore[union-attr]
            recv = n.value
            if isinstance(recv, ast.Subscript) and norm(recv.value) == f"{e}.args":
                bad.append((n, f"`{short(parent(n))}` calls a str method on the raw exception payload: a non-string payload turns the error into AttributeError"))
        if isinstance(n, ast.BinOp) and any(isinstance(x, ast.Subscript) and norm(x.value) == f"{e}.args" for x in (n.left, n.right)):
            bad.append((n, f"`{short(n)}` does arithmetic/concatenation on the raw exception payload"))
    if bad:
        for node, msg in bad[:3]:
            chk.violated("S3", key + ":" + short(node, 60), m.loc(node), msg)
    else:
        chk.holds("S3", key, m.loc(h), "nothing between handler entry and re-raise can raise on an arbitrary exception payload")


def s3b_live_iteration(chk: Check, proj: Project, w) -> None:
    chk.rule("S3b", "cleanup code never iterates a registry (or the set stored in it) while the loop body can remove from it: such a loop raises RuntimeError, which replaces the user's exception and skips the rest of the cleanup")
    n = 0
    regs = w.registries()
    names = {g.name: gk for gk, g in regs.items()}
    for m, q, f in proj.all_funcs():
        if not m.name.endswith(("perfutil.provide", "perfutil.component")) and not q.startswith("Component._render"):
            continue
        for loop in [x for x in body_walk(f) if isinstance(x, ast.For)]:
            it = loop.iter
            # which registry does the iterable belong to (directly, or as the element stored under a key)?
            mentioned = [nm for nm in names if any(isinstance(x, ast.Name) and x.id == nm for x in ast.walk(it))]
            alias = None
            if isinstance(it, ast.Name):
                for _s, v in assignments(f, it.id):
                    if v is not None:
                        mentioned += [nm for nm in names if any(isinstance(x, ast.Name) and x.id == nm for x in ast.walk(v))]
                        alias = it.id
            if not mentioned:
                continue
            n += 1
            gk = names[mentioned[0]]
            snapshot = isinstance(it, ast.Call) and isinstance(it.func, ast.Name) and it.func.id in ("list", "tuple", "sorted", "set", "frozenset") or (isinstance(it, ast.Call) and isinstance(it.func, ast.Attribute) and it.func.attr == "copy")
            # does the body remove from that registry (or its elements)?
            removes = False
            for c in calls(loop.body):
                for op, g2, _spec in w.summ.call_effects(m, f, c):
                    if op == "remove" and g2.split("[")[0] == gk:
                        removes = True
            for op, g2, _k, site in w.summ.sites.get(fkey(m, f), []):
                if op == "remove" and g2.split("[")[0] == gk and any(a is loop for a in ancestors(site)):
                    removes = True
            key = f"{m.name.replace('django_components.', '')}:{q}:for {short(loop.target, 20)} in {short(it, 50)}"
            if removes and not snapshot:
                chk.violated("S3b", key, m.loc(loop), f"`for {short(loop.target)} in {short(it)}` iterates {mentioned[0]} (or the set stored in it) directly while the loop body removes from it: the loop raises 'changed size during iteration', the RuntimeError replaces the user's exception and the remaining cleanup is skipped (provided data stays in the cache)")
            else:
                chk.holds("S3b", key, m.loc(loop), "iterates a snapshot" if snapshot else "the loop body does not remove from the iterated registry")
    chk.floor("S3b", n, 2)


_FIXTURE_LOST_UPDATE = "def h(err, label):\n    comps = getattr(err, '_components', [])\n    comps.insert(0, label)\n    raise err\n"
_MUTATORS = ("insert", "append", "extend", "add", "update", "setdefault", "appendleft")


def lost_default_updates(f: ast.AST) -> List[Tuple[ast.AST, ast.AST]]:
    """`v = getattr(o, a, <fresh container>)` / `v = d.get(k, <fresh container>)` followed by an in-place mutation of `v`
    that is never stored back: when the attribute / key is absent the update is made on a throw-away object."""
    out = []
    for st in stmts(f):
        if not (isinstance(st, (ast.Assign, ast.AnnAssign)) and isinstance(st.value, ast.Call)):
            continue
        c = st.value
        fresh = None
        if norm(c.func) == "getattr" and len(c.args) == 3:
            fresh, owner, slot = c.args[2], norm(c.args[0]), c.args[1]
        elif isinstance(c.func, ast.Attribute) and c.func.attr == "get" and len(c.args) == 2:
            fresh, owner, slot = c.args[1], norm(c.func.value), c.args[0]
        if fresh is None or not (isinstance(fresh, (ast.List, ast.Dict, ast.Set)) or (isinstance(fresh, ast.Call) and norm(fresh.func) in ("list", "dict", "set", "deque"))):
            continue
        tg = [t for t, _v in assign_targets(st) if isinstance(t, ast.Name)]
        if len(tg) != 1:
            continue
        v = tg[0].id
        muts = [x for x in stmts(f) if isinstance(x, ast.Expr) and isinstance(x.value, ast.Call) and isinstance(x.value.func, ast.Attribute) and x.value.func.attr in _MUTATORS and norm(x.value.func.value) == v and x.lineno > st.lineno]
        stored = [x for x in stmts(f) if isinstance(x, (ast.Assign, ast.AnnAssign)) and x.lineno > st.lineno and any(isinstance(t, (ast.Attribute, ast.Subscript)) and norm(t).startswith(owner) for t, _v in assign_targets(x))
                  and (norm(x.value) == v if x.value is not None else False)]
        redefined = [x for x in stmts(f) if isinstance(x, (ast.Assign, ast.AnnAssign)) and x.lineno > st.lineno and any(isinstance(t, ast.Name) and t.id == v for t, _v in assign_targets(x))]
        for mu in muts:
            if not stored and not any(r.lineno < mu.lineno for r in redefined):
                out.append((st, mu))
    return out


def s3e_user_code_under_path(chk: Check, proj: Project, w) -> None:
    chk.rule("S3e", "every call in the tree loop that runs user code (a component's deferred renderer; the per-component callback that runs on_render_after) is made inside `with component_error_message(<path of that component>)`, so the exception reaches the caller annotated with the whole component path, not with the root alone")
    pm, pf = proj.func("perfutil.component", "component_post_render")
    tree = None
    for c in calls(pf):
        tg = w.cg.resolve_callee(pm, c, c.func)
        if tg is not None and isinstance(tg[1], ast.FunctionDef) and any(isinstance(x, ast.While) for x in ast.walk(tg[1])):
            tree = tg
    m, f = tree if tree is not None else (pm, pf)
    chk.analysed(fkey(m, f))
    loop = next((x for x in ast.walk(f) if isinstance(x, ast.While)), None)
    if loop is None:
        raise AnalysisError("queue loop not found")
    # callables that come out of the per-render tables: values read from the renderer cache / the callbacks dict
    cb_param = next((p_ for p_ in params(f) if "callback" in p_), None)
    user_vars: Set[str] = set()
    for st in ast.walk(loop):
        if isinstance(st, ast.Assign):
            src = norm(st.value)
            if "component_renderer_cache" in src or (cb_param and src.startswith(cb_param + "[")):
                for t in st.targets:
                    for x in ast.walk(t):
                        if isinstance(x, ast.Name):
                            user_vars.add(x.id)
    n = 0
    for c in [x for x in ast.walk(loop) if isinstance(x, ast.Call) and isinstance(x.func, ast.Name) and x.func.id in user_vars]:
        n += 1
        under = any(isinstance(a, ast.With) and any(isinstance(it.context_expr, ast.Call) and last_attr(it.context_expr.func) == "component_error_message" for it in a.items) for a in ancestors(c))
        chk.ob("S3e", f"perfutil.component:{f.name}:{short(c, 50)}-under-component-path", m.loc(c), under,
               f"`{short(c, 50)}` runs inside `with component_error_message(...)`" if under else
               f"`{short(enclosing_stmt(c), 70)}` runs user code (on_render_after) outside `component_error_message`: an exception from the hook of a NESTED component is reported as 'An error occured while rendering components <root>' - the path to the component that raised is lost")
        # ... with the path of THAT component: every name in the argument is defined on the way to the call in this iteration
        # (a variable assigned further down in the loop body still holds the value of an EARLIER iteration)
        wth = next((a for a in ancestors(c) if isinstance(a, ast.With) and any(isinstance(it.context_expr, ast.Call) and last_attr(it.context_expr.func) == "component_error_message" for it in a.items)), None)
        if wth is not None:
            arg_names = {y.id for it in wth.items for y in ast.walk(it.context_expr) if isinstance(y, ast.Name) and isinstance(y.ctx, ast.Load)}
            stale = []
            for nm_ in sorted(arg_names):
                defs_ = [s_ for s_, _v in assignments(f, nm_) if any(a is loop for a in ancestors(s_))]
                if defs_ and all(d.lineno > wth.lineno for d in defs_):
                    stale.append(nm_)
            chk.ob("S3e", f"perfutil.component:{f.name}:{short(c, 50)}-path-of-the-current-item", m.loc(wth), not stale,
                   "the path handed to component_error_message is built from the current queue item" if not stale else
                   f"`{short(wth.items[0].context_expr)}` uses `{stale[0]}`, which this iteration has not assigned yet (its only definitions in the loop come later): it still holds the path of the component rendered LAST - an error in on_render_after of a component with children is reported under its last descendant's path (Page > footer for a fault in Page)")
    chk.floor("S3e", n, 2)


def s3d_annotation(chk: Check, proj: Project, w) -> None:
    chk.rule("S3d", "the component path reaches the exception: no in-place update of a throw-away default (`getattr(err, a, [])` mutated but never stored back); the first line of the message is stripped only when it IS the library's own prefix")
    if len(lost_default_updates(ast.parse(_FIXTURE_LOST_UPDATE).body[0])) != 1:
        raise AnalysisError("lost-update lint lost its positive fixture")
    em = proj.mod("util.exception")
    n = 0
    for q in ("component_error_message", "add_slot_to_error_message"):
        f = em.func(q)
        chk.analysed(fkey(em, f))
        n += 1
        lost = lost_default_updates(f)
        chk.ob("S3d", f"util.exception:{q}:annotation-stored-on-the-exception", em.loc(lost[0][1]) if lost else em.loc(f), not lost,
               "every update of the component path is made on (or stored back to) the exception object" if not lost else
               f"`{short(lost[0][1])}` updates the object returned by `{short(lost[0][0].value)}`: for an exception that carries no path yet this is a throw-away default, so the `Comp(slot:name)` entry is lost from the error message")
        # the label must actually be added: an insert/append on err._components or an assignment that includes the path
        adds = [x for x in ast.walk(f) if (isinstance(x, ast.Call) and isinstance(x.func, ast.Attribute) and x.func.attr in ("insert", "append") and "_components" in norm(x.func.value))
                or (isinstance(x, ast.Assign) and any("_components" in norm(t) for t in x.targets) and isinstance(x.value, (ast.List, ast.BinOp)))]
        labelled = [x for x in adds if any(isinstance(y, (ast.Name, ast.JoinedStr, ast.Starred)) for y in ast.walk(x.args[-1] if isinstance(x, ast.Call) else x.value))]
        if not lost:
            chk.ob("S3d", f"util.exception:{q}:adds-its-label", em.loc(labelled[0]) if labelled else em.loc(f), bool(labelled), "the handler adds its own label to err._components")
    chk.floor("S3d", n, 2)
    f = em.func("component_error_message")
    strips = [x for x in stmts(f) if isinstance(x, ast.Assign) and any(isinstance(c, ast.Call) and isinstance(c.func, ast.Attribute) and c.func.attr in ("split", "partition", "splitlines") for c in ast.walk(x.value))]
    pre = [x for x in ast.walk(f) if isinstance(x, ast.JoinedStr) and x.values and isinstance(x.values[0], ast.Constant) and isinstance(x.values[0].value, str) and len(x.values[0].value) >= 10
           and not any(isinstance(a, ast.Raise) for a in ancestors(x))]
    if not strips or not pre:
        chk.undecided("S3d", "util.exception:component_error_message:strip-only-own-prefix", em.loc(f), "message strip / prefix construction not recognised")
        return
    prefix_txt = str(pre[0].values[0].value)
    for x in strips:
        atoms = cond_atoms(x)
        guard = None
        for t, pol in atoms:
            if pol and ".startswith(" in t:
                try:
                    e = ast.parse(t, mode="eval").body
                except SyntaxError:
                    continue
                if isinstance(e, ast.Call) and e.args:
                    okf, val = proj.try_fold(em, e.args[0])
                    if okf and isinstance(val, str) and val and prefix_txt.startswith(val):
                        guard = t
        chk.ob("S3d", "util.exception:component_error_message:strip-only-own-prefix", em.loc(x), guard is not None,
               f"the first line is removed only under `{guard}` (the prefix this function prepends)" if guard else
               f"`{short(x)}` removes the first line of the message without testing that it is the library's prefix (the `not components` test above it can never be true: the path always contains this component): a multi-line user message loses its first line")


def s3c_queue_items_immutable(chk: Check, proj: Project, w) -> None:
    chk.rule("S3c", "records in the post-render queue are immutable: a value read from a queue item is never mutated in place (the error path annotation must be a fresh list per component)")
    r = proj.try_func("perfutil.component", "_render_component_tree") or proj.try_func("perfutil.component", "component_post_render")
    m, f = r  # type: ignore[misc]
    item = local_from(f, lambda v: isinstance(v, ast.Call) and isinstance(v.func, ast.Attribute) and v.func.attr in ("popleft", "pop") and "queue" in norm(v.func.value))
    if item is None:
        chk.undecided("S3c", "perfutil.component:queue-item", m.loc(f), "queue item variable not found")
        return
    aliases = {item}
    for st, v in [(s_, s_.value) for s_ in stmts(f) if isinstance(s_, (ast.Assign, ast.AnnAssign)) and s_.value is not None]:
        tg = st.targets[0] if isinstance(st, ast.Assign) else st.target
        if isinstance(tg, ast.Name) and isinstance(v, ast.Attribute) and isinstance(v.value, ast.Name) and v.value.id == item:
            aliases.add(tg.id)
    bad = []
    for x in body_walk(f):
        if isinstance(x, ast.Call) and isinstance(x.func, ast.Attribute) and x.func.attr in ("append", "extend", "insert", "pop", "remove", "clear", "sort", "reverse", "update"):
            base = x.func.value
            root = base
            while isinstance(root, ast.Attribute):
                root = root.value
            if isinstance(root, ast.Name) and root.id in aliases and not (isinstance(base, ast.Name) and base.id == item):
                bad.append(x)
        if isinstance(x, ast.AugAssign):
            root = x.target
            while isinstance(root, (ast.Attribute, ast.Subscript)):
                root = root.value
            if isinstance(root, ast.Name) and root.id in aliases - {item}:
                bad.append(x)
    chk.ob("S3c", "perfutil.component:queue-items-not-mutated", m.loc(bad[0]) if bad else m.loc(f), not bad,
           f"nothing read from `{item}` is mutated in place" if not bad else
           f"`{short(bad[0])}` mutates a value that belongs to the queue item `{item}` (shared by every item created from the same parent): the component path attached to an error names earlier siblings and their descendants instead of the failing component's ancestors")


MANIFEST = {
    "text": "Decides, for every exceptional CFG edge of the render functions, that each per-render registry entry and stack push has a release attempt before the exception leaves the library (same function, in-package context-manager exit, or every caller), that the tree-level error handler releases every id-keyed registry, that new global state cannot be added silently, and that handlers re-raise the caught exception without computing on its payload. This is the fault-point quantifier of the property expressed as a path property; it does not measure memory or run renders. Also: no live iteration over a registry that the loop body shrinks, queue records are not mutated in place, the component path is stored on the exception (no update of a throw-away default) and the message's first line is stripped only when it is the library's own prefix; exception payload locals are tracked flow-sensitively. Round 4: release functions return early only on a test of their own key; the error sweep releases every registry for every id unconditionally. Round 5: the release loop over providers is complete (no break / return). Round 6: the tree-level sweep runs on the normal path too (finally), F47. Round 7: user-code calls of the tree loop run under the component path (F50); the id leaves the id table unconditionally; a handler that raises a NEW instance of the caught class is not a re-raise; the resolved flag is stored last (shared with C16-S4).",
    "note": "Trusted: cleanup code in except/finally does not itself fail; listed builtin container operations are total; Django's Context.update()/push() used in `with` pop on exit. Not decided: weak-reference unreachability, measured growth, that the guard inside a release attempt is true at run time.",
    "technique": "static acquire/release pairing over a CFG with exceptional edges, function summaries and caller lifting; global-state inventory; handler identity/purity rules",
}
