"""Loop-progress analysis for the hand-written scanners (DESIGN.md C12-S1, Appendix A7).

A disjunctive forward analysis over the statement CFG of one loop iteration. A state is either DONE (the cursor
advanced by >= 1, or the loop's own measure decreased) or a fact set about the *unchanged* cursor position:

    not_at_end      the cursor is known not to be at the end of the text
    not_next        tokens known NOT to start at the cursor (vacuously true at the end)
    cur_in / cur_notin   (character scanners) the current character is known to be in / not in a set

Branch conditions refine facts (`is_next_token(L)`: true => not at end, false => every token of L is not next;
`is_at_end()`; `char in S`, `char == c`; `and` / `or` / `not` by splitting states). Consuming primitives move to
DONE when the facts prove they consume >= 1 character and otherwise keep the zero-consumption state. Every path that
returns to the loop head must be DONE.

The primitives are recognised by name AND their bodies are shape-checked by the caller (rules/C12.py) so that the
semantic summaries used here are justified by the code.
"""
from __future__ import annotations

import ast
from typing import Any, Callable, Dict, FrozenSet, Iterable, List, Optional, Sequence, Set, Tuple

from .cfg import CFG, Node
from .source import AnalysisError, FuncNode, Module, Project, body_walk, norm, walk_no_nested



class Facts:
    __slots__ = ("prog", "not_at_end", "not_next", "cur_in", "cur_notin", "flags")

    def __init__(self, prog: bool = False, not_at_end: bool = False, not_next: FrozenSet[str] = frozenset(), cur_in: Optional[FrozenSet[str]] = None, cur_notin: FrozenSet[str] = frozenset(), flags: FrozenSet[Tuple[str, Any]] = frozenset()):
        self.prog, self.not_at_end, self.not_next, self.cur_in, self.cur_notin, self.flags = prog, not_at_end, not_next, cur_in, cur_notin, flags

    def key(self) -> Tuple:
        return (self.prog, self.not_at_end, self.not_next, self.cur_in, self.cur_notin, self.flags)

    def consumed(self) -> "Facts":
        """The cursor advanced by >= 1: progress made, everything known about the old position is void."""
        keep = frozenset((n, v) for n, v in self.flags if n not in ("at_end", "curvar"))
        return Facts(prog=True, flags=keep)

    def __hash__(self) -> int:
        return hash(self.key())

    def __eq__(self, o: object) -> bool:
        return isinstance(o, Facts) and self.key() == o.key()

    def with_(self, **kw: Any) -> "Facts":
        d = {k: getattr(self, k) for k in self.__slots__}
        d.update(kw)
        return Facts(**d)

    def flag(self, name: str) -> Any:
        for n, v in self.flags:
            if n == name:
                return v
        return None

    def set_flag(self, name: str, v: Any) -> "Facts":
        return self.with_(flags=frozenset({(n, x) for n, x in self.flags if n != name} | ({(name, v)} if v is not None else set())))

    def __repr__(self) -> str:
        return f"<facts prog={self.prog} nae={self.not_at_end} nn={sorted(self.not_next)} in={sorted(self.cur_in) if self.cur_in is not None else None} notin={sorted(self.cur_notin)} {sorted(self.flags)}>"




class ScanModel:
    """Semantics of one scanner's primitives. Subclasses: tag scanner (token facts) and char scanner."""

    def __init__(self, proj: Project, mod: Module, func: FuncNode):
        self.proj, self.mod, self.func = proj, mod, func
        self.notes: List[str] = []

    def fold(self, e: ast.AST, env: Optional[Dict[str, Any]] = None) -> Tuple[bool, Any]:
        # constants defined inside the scanner function (QUOTE_CHARS = (...)) are folded too
        local_env: Dict[str, Any] = dict(env or {})
        for n in self.func.body:
            if isinstance(n, ast.Assign) and len(n.targets) == 1 and isinstance(n.targets[0], ast.Name) and n.targets[0].id.isupper():
                ok, v = self.proj.try_fold(self.mod, n.value, local_env)
                if ok:
                    local_env[n.targets[0].id] = v
        return self.proj.try_fold(self.mod, e, local_env)

    # -- hooks ---------------------------------------------------------------------------------
    def cond(self, e: ast.AST, st: Facts) -> List[Tuple[bool, Facts]]:
        """Split a state by a condition: [(truth value, refined facts)]. Default: unknown -> both."""
        if isinstance(e, ast.UnaryOp) and isinstance(e.op, ast.Not):
            return [(not t, s) for t, s in self.cond(e.operand, st)]
        if isinstance(e, ast.BoolOp):
            cur: List[Tuple[Optional[bool], Facts]] = [(None, st)]
            is_and = isinstance(e.op, ast.And)
            out: List[Tuple[bool, Facts]] = []
            for v in e.values:
                nxt: List[Tuple[Optional[bool], Facts]] = []
                for _t, s in cur:
                    for t2, s2 in self.cond(v, s):
                        if is_and and not t2:
                            out.append((False, s2))
                        elif (not is_and) and t2:
                            out.append((True, s2))
                        else:
                            nxt.append((t2, s2))
                cur = nxt
            out.extend((is_and, s) for _t, s in cur)
            return out
        return self.atom(e, st)

    def atom(self, e: ast.AST, st: Facts) -> List[Tuple[bool, Facts]]:
        if isinstance(e, ast.Constant):
            return [(bool(e.value), st)]
        if isinstance(e, ast.Name) and st.flag(e.id) is not None:
            return [(bool(st.flag(e.id)), st)]
        return [(True, st), (False, st)]

    def effect(self, call: ast.Call, st: Facts) -> Optional[List[State]]:
        """Effect of a primitive call on a zero-progress state; None if the call is not a primitive."""
        return None

    def stmt_effect(self, node: ast.AST, st: Facts) -> Optional[List[State]]:
        """Non-call statements that move the cursor or the loop's measure."""
        return None


def calls_in_order(node: ast.AST) -> List[ast.Call]:
    """Call nodes of a statement in (approximate) evaluation order: inner before outer, left to right."""
    out: List[ast.Call] = []

    def visit(n: ast.AST) -> None:
        if isinstance(n, (ast.FunctionDef, ast.AsyncFunctionDef, ast.Lambda, ast.ClassDef)):
            return
        for c in ast.iter_child_nodes(n):
            visit(c)
        if isinstance(n, ast.Call):
            out.append(n)

    visit(node)
    return out


class LoopProgress:
    """Explore one iteration of `loop` from `init` states. Nested loops are traversed inline (their heads are test
    nodes; the visited set gives the fixpoint); the states with which nested heads are ENTERED are recorded so that
    each nested loop can be analysed as a target of its own from its real entry invariant."""

    def __init__(self, model: ScanModel, cfg: CFG, loop: ast.While, measure: Callable[[ast.AST, Facts], bool], max_states: int = 20000):
        self.model, self.cfg, self.loop, self.measure = model, cfg, loop, measure
        self.max_states = max_states
        self.head = next((n for n in cfg.nodes if n.kind == "test" and n.meta.get("owner") is loop), None)
        if self.head is None:
            raise AnalysisError("loop head not found in CFG")
        self.explored = 0
        self.nested_entries: Dict[int, Set[Facts]] = {}

    def initial(self, entry: Optional[Iterable[Facts]] = None) -> List[Tuple[Node, Facts, Tuple[str, ...]]]:
        init: List[Tuple[Node, Facts, Tuple[str, ...]]] = []
        for e in (entry or [Facts()]):
            e = e.with_(prog=False)
            for t, s in self.model.cond(self.head.ast, e):
                if t:
                    for succ, lab in self.head.succ:
                        if lab == "T":
                            init.append((succ, s, ()))
        return init

    def run(self, entry: Optional[Iterable[Facts]] = None) -> List[Tuple[Facts, List[str]]]:
        """States without progress that reach the loop head again, with the path that led there."""
        bad: List[Tuple[Facts, List[str]]] = []
        seen: Set[Tuple[int, Any]] = set()
        todo = self.initial(entry)
        while todo:
            node, st, path = todo.pop()
            k = (node.id, st.key())
            if k in seen:
                continue
            seen.add(k)
            self.explored += 1
            if self.explored > self.max_states:
                raise AnalysisError("loop progress: state space too large")
            if node is self.head:
                if not st.prog:
                    bad.append((st, list(path)))
                continue
            if node in (self.cfg.exit, self.cfg.exc_exit):
                continue
            for succ, lab, st2 in self.transfer(node, st):
                if succ.kind == "test" and succ.meta.get("loop") and succ is not self.head and lab != "b":
                    self.nested_entries.setdefault(succ.id, set()).add(st2)
                todo.append((succ, st2, path + ((f"{node.lineno}:{norm(node.ast)[:60]}" if node.ast is not None else node.kind),)))
        return bad

    def transfer(self, node: Node, st: Facts) -> List[Tuple[Node, str, Facts]]:
        m = self.model
        if node.kind in ("join", "finally", "dispatch", "handler", "entry", "def", "with_exit"):
            return [(s, lab, st) for s, lab in node.succ if lab != "x"]
        if node.kind == "raise":
            return []
        if node.kind == "test" and node.ast is not None:
            res: List[Tuple[Node, str, Facts]] = []
            for s0 in self.apply_calls(node.ast, st):
                for t, s1 in m.cond(node.ast, s0):
                    for s, lab in node.succ:
                        if (lab == "T" and t) or (lab == "F" and not t):
                            res.append((s, lab, s1))
            return res
        if node.kind in ("for_init", "for_iter") or node.ast is None:
            return [(s, lab, st) for s, lab in node.succ if lab != "x"]
        out: List[Tuple[Node, str, Facts]] = []
        for s1 in self.apply_calls(node.ast, st):
            if self.measure(node.ast, s1):
                s1 = s1.with_(prog=True)
            se = m.stmt_effect(node.ast, s1)
            for s2 in (se if se is not None else [s1]):
                out.extend((s, lab, s2) for s, lab in node.succ if lab != "x")
        return out

    def apply_calls(self, node: ast.AST, st: Facts) -> List[Facts]:
        states: List[Facts] = [st]
        for c in calls_in_order(node):
            nxt: List[Facts] = []
            for s in states:
                eff = self.model.effect(c, s)
                for s2 in (eff if eff is not None else [s]):
                    if s2 not in nxt:
                        nxt.append(s2)
            states = nxt
        return states
