"""Regex language analysis on `re._parser` trees (DESIGN.md Appendix A5/A6).

* `Lang(pattern, flags)`: NFA -> DFA over a finite set of representative characters (all ASCII code points plus a
  few non-ASCII representatives), built from the parse tree -- nothing is matched with `re` itself.
* `Lang.accepts_all(abstract_string)`: does the regex fully match EVERY concretisation of an abstract string
  (sequence of literals and fields `alphabet^[lo..hi]`)? Exact for that abstraction because the automaton is
  deterministic and complete: track the set of DFA states reachable over all concretisations.
* `ambiguity(pattern)`: number of sequential unbounded repeats that overlap their continuation (worst-case
  backtracking degree) and star height.
"""
from __future__ import annotations

import re
import unicodedata
from typing import Any, Dict, FrozenSet, Iterable, List, Optional, Sequence, Set, Tuple, Union

try:  # Python >= 3.11
    import re._parser as sre_parse  # type: ignore
    import re._constants as sre_c  # type: ignore
except Exception:  # pragma: no cover
    import sre_parse  # type: ignore
    import sre_constants as sre_c  # type: ignore

from .source import AnalysisError

MAXREPEAT = sre_c.MAXREPEAT

# representative characters: all ASCII + one per interesting non-ASCII class
NON_ASCII_REPS = {
    "é": "latin letter (unicode \\w, not ASCII)",
    "中": "CJK letter",
    "٣": "arabic-indic digit (unicode \\d, \\w)",
    " ": "no-break space (unicode \\s)",
    " ": "line separator",
    "\U0001F600": "emoji (non-word)",
    "·": "middle dot (punctuation, valid in identifiers as continue char)",
}
ALPHABET: List[str] = [chr(i) for i in range(128)] + list(NON_ASCII_REPS)

ASCII_WORD = frozenset("abcdefghijklmnopqrstuvwxyzABCDEFGHIJKLMNOPQRSTUVWXYZ0123456789_")
ASCII_ALNUM = frozenset("abcdefghijklmnopqrstuvwxyzABCDEFGHIJKLMNOPQRSTUVWXYZ0123456789")
HEX_LOWER = frozenset("0123456789abcdef")
DIGITS = frozenset("0123456789")
ANY = frozenset(ALPHABET)
# what a Python identifier (class __name__ written in source) can contain; type("x-y", ...) can contain anything
UNICODE_IDENT = frozenset(c for c in ALPHABET if c in ASCII_WORD or c in ("é", "中", "٣", "·"))


def _category(cat: Any, ch: str, is_bytes: bool, ascii_flag: bool) -> bool:
    name = str(cat)
    neg = "NOT_" in name
    asc = is_bytes or ascii_flag or ord(ch) < 128
    if "DIGIT" in name:
        r = ch in DIGITS if (is_bytes or ascii_flag) else ch.isdigit() or unicodedata.category(ch) == "Nd"
    elif "SPACE" in name:
        r = ch in " \t\n\r\f\v" if (is_bytes or ascii_flag) else ch.isspace()
    elif "WORD" in name:
        r = ch in ASCII_WORD if (is_bytes or ascii_flag) else (ch.isalnum() or ch == "_")
    elif "LINEBREAK" in name:
        r = ch == "\n"
    else:
        raise AnalysisError(f"regex category not modelled: {name}")
    return (not r) if neg else r


def charset(op: Any, arg: Any, is_bytes: bool, flags: int) -> FrozenSet[str]:
    """Set of representative characters matched by a single-character regex item."""
    ascii_flag = bool(flags & re.ASCII)
    ic = bool(flags & re.IGNORECASE)
    out: Set[str] = set()
    name = str(op)
    if name == "LITERAL":
        out = {chr(arg)} if arg < 128 or chr(arg) in ALPHABET else set()
        if arg >= 128 and not out:
            out = set()  # a non-representative literal: matches none of our representatives
    elif name == "NOT_LITERAL":
        out = {c for c in ALPHABET if ord(c) != arg}
    elif name == "ANY":
        out = {c for c in ALPHABET if c != "\n" or (flags & re.DOTALL)}
    elif name == "IN":
        items = list(arg)
        negate = bool(items) and str(items[0][0]) == "NEGATE"
        if negate:
            items = items[1:]
        for c in ALPHABET:
            hit = False
            for iop, iarg in items:
                n2 = str(iop)
                if n2 == "LITERAL":
                    hit = hit or ord(c) == iarg
                elif n2 == "RANGE":
                    hit = hit or iarg[0] <= ord(c) <= iarg[1]
                elif n2 == "CATEGORY":
                    hit = hit or _category(iarg, c, is_bytes, ascii_flag)
                else:
                    raise AnalysisError(f"regex class item not modelled: {n2}")
            if hit != negate:
                out.add(c)
    elif name == "CATEGORY":
        out = {c for c in ALPHABET if _category(arg, c, is_bytes, ascii_flag)}
    else:
        raise AnalysisError(f"not a single-character item: {name}")
    if is_bytes:
        # a bytes pattern sees UTF-8 bytes: a non-ASCII character is a run of bytes >= 0x80, which only negated
        # classes / dot / NOT_LITERAL can match. Keep non-ASCII reps only if the item matches byte 0x80..0xFF.
        keep_hi = name in ("NOT_LITERAL", "ANY") or (name == "IN" and negate)  # type: ignore[possibly-undefined]
        out = {c for c in out if ord(c) < 128 or keep_hi}
    if ic:
        out |= {c.lower() for c in out} | {c.upper() for c in out if len(c.upper()) == 1}
        out &= set(ALPHABET)
    return frozenset(out)


_PREV_WORD = -1  # marker inside a DFA state: the previously consumed character was a word character (for \\b / \\B)


def _is_word(ch: str) -> bool:
    return ch == "_" or ch.isalnum()


class NFA:
    has_boundary = False

    def __init__(self) -> None:
        self.n = 0
        self.eps: Dict[int, List[Tuple[int, str]]] = {}  # state -> [(target, kind)] kind: '' | 'BEGIN' | 'END'
        self.trans: Dict[int, List[Tuple[FrozenSet[str], int]]] = {}

    def new(self) -> int:
        self.n += 1
        return self.n - 1

    def add_eps(self, a: int, b: int, kind: str = "") -> None:
        self.eps.setdefault(a, []).append((b, kind))

    def add(self, a: int, cs: FrozenSet[str], b: int) -> None:
        self.trans.setdefault(a, []).append((cs, b))


def _build(nfa: NFA, items: Sequence[Tuple[Any, Any]], start: int, is_bytes: bool, flags: int) -> int:
    cur = start
    for op, arg in items:
        name = str(op)
        if name in ("LITERAL", "NOT_LITERAL", "ANY", "IN", "CATEGORY"):
            nxt = nfa.new()
            nfa.add(cur, charset(op, arg, is_bytes, flags), nxt)
            cur = nxt
        elif name == "SUBPATTERN":
            sub = arg[-1]
            add_f, del_f = (arg[1], arg[2]) if len(arg) == 4 else (0, 0)
            cur = _build(nfa, list(sub), cur, is_bytes, (flags | add_f) & ~del_f)
        elif name == "BRANCH":
            end = nfa.new()
            for alt in arg[1]:
                s = nfa.new()
                nfa.add_eps(cur, s)
                e = _build(nfa, list(alt), s, is_bytes, flags)
                nfa.add_eps(e, end)
            cur = end
        elif name in ("MAX_REPEAT", "MIN_REPEAT", "POSSESSIVE_REPEAT"):
            lo, hi, sub = arg
            for _ in range(lo):
                cur = _build(nfa, list(sub), cur, is_bytes, flags)
            if hi == MAXREPEAT:
                s = nfa.new()
                nfa.add_eps(cur, s)
                e = _build(nfa, list(sub), s, is_bytes, flags)
                nfa.add_eps(e, s)
                cur = s
            else:
                end = nfa.new()
                nfa.add_eps(cur, end)
                for _ in range(hi - lo):
                    cur = _build(nfa, list(sub), cur, is_bytes, flags)
                    nfa.add_eps(cur, end)
                cur = end
        elif name == "AT":
            an = str(arg)
            nxt = nfa.new()
            if "BEGINNING" in an:
                nfa.add_eps(cur, nxt, "BEGIN")
            elif "END" in an:
                nfa.add_eps(cur, nxt, "END")
            elif an.endswith("NON_BOUNDARY"):
                nfa.add_eps(cur, nxt, "NONBOUNDARY")
                nfa.has_boundary = True
            elif an.endswith("BOUNDARY"):
                nfa.add_eps(cur, nxt, "BOUNDARY")
                nfa.has_boundary = True
            else:
                raise AnalysisError(f"regex anchor not modelled: {an}")
            cur = nxt
        elif name in ("ASSERT", "ASSERT_NOT", "GROUPREF", "GROUPREF_EXISTS", "ATOMIC_GROUP"):
            raise AnalysisError(f"regex construct not modelled: {name}")
        else:
            raise AnalysisError(f"regex op not modelled: {name}")
    return cur


class Lang:
    """Language of a regex as a complete DFA over ALPHABET (full-match semantics)."""

    def __init__(self, pattern: Union[str, bytes], flags: int = 0):
        self.pattern = pattern
        self.is_bytes = isinstance(pattern, bytes)
        try:
            self.tree = sre_parse.parse(pattern, flags)
        except re.error as e:
            raise AnalysisError(f"regex does not parse: {pattern!r}: {e}")
        self.flags = self.tree.state.flags | flags
        self.nfa = NFA()
        s = self.nfa.new()
        self.start = s
        self.final = _build(self.nfa, list(self.tree), s, self.is_bytes, self.flags)
        self._dfa: Dict[FrozenSet[int], Dict[str, FrozenSet[int]]] = {}

    def _closure(self, states: Iterable[int], at_begin: bool, at_end: bool, boundary: Optional[bool] = None) -> FrozenSet[int]:
        """eps-closure. `boundary`: None = the next character is not known yet (\\b / \\B edges wait); True / False = we are
        (not) at a word boundary, so the matching kind of edge may be taken."""
        seen = set(x for x in states if x != _PREV_WORD)
        todo = list(seen)
        while todo:
            q = todo.pop()
            for t, kind in self.nfa.eps.get(q, []):
                if kind == "BEGIN" and not at_begin:
                    continue
                if kind == "END" and not at_end:
                    continue
                if kind in ("BOUNDARY", "NONBOUNDARY"):
                    if boundary is None or (kind == "BOUNDARY") != boundary:
                        continue
                if t not in seen:
                    seen.add(t)
                    todo.append(t)
        return frozenset(seen)

    def initial(self) -> FrozenSet[int]:
        return self._closure([self.start], True, False)

    def step(self, S: FrozenSet[int], ch: str) -> FrozenSet[int]:
        row = self._dfa.setdefault(S, {})
        if ch not in row:
            src: Iterable[int] = S
            if self.nfa.has_boundary:
                prev = _PREV_WORD in S
                src = self._closure(S, False, False, boundary=(prev != _is_word(ch)))
            nxt = {t for q in src for cs, t in self.nfa.trans.get(q, []) if ch in cs}
            res = self._closure(nxt, False, False)
            if self.nfa.has_boundary and _is_word(ch) and res:
                res = frozenset(res | {_PREV_WORD})
            row[ch] = res
        return row[ch]

    def accepting(self, S: FrozenSet[int], at_begin: bool = False) -> bool:
        if self.nfa.has_boundary:
            return self.final in self._closure(S, at_begin, True, boundary=(_PREV_WORD in S))
        return self.final in self._closure(S, at_begin, True)

    # -- inclusion of an abstract string ------------------------------------------------------
    def accepts_all(self, segs: Sequence["Seg"]) -> Tuple[bool, str]:
        """Every concretisation of `segs` is fully matched. Returns (ok, explanation of a counterexample)."""
        # each DFA state (a frozenset of NFA states) carries one witness string
        cur: Dict[FrozenSet[int], str] = {self.initial(): ""}
        empty_so_far = True
        for seg in segs:
            if seg.kind == "lit":
                for ch in seg.text:
                    c2 = ch if ch in ANY else ("é" if ch.isalpha() else "\U0001F600")
                    cur = {self.step(S, c2): wit + ch for S, wit in cur.items()}
            else:
                alpha = sorted(seg.alphabet)
                # strings of length lo..hi over alpha
                level = dict(cur)
                for _ in range(seg.lo):
                    nxt: Dict[FrozenSet[int], str] = {}
                    for S, wit in level.items():
                        for ch in alpha:
                            nxt.setdefault(self.step(S, ch), wit + ch)
                    level = nxt
                acc = dict(level)
                if seg.hi is None:
                    frontier = dict(level)
                    while frontier:
                        nxt = {}
                        for S, wit in frontier.items():
                            for ch in alpha:
                                T = self.step(S, ch)
                                if T not in acc and T not in nxt:
                                    nxt[T] = wit + ch
                        acc.update(nxt)
                        frontier = nxt
                else:
                    for _ in range(seg.hi - seg.lo):
                        nxt = {}
                        for S, wit in level.items():
                            for ch in alpha:
                                nxt.setdefault(self.step(S, ch), wit + ch)
                        for T, wit in nxt.items():
                            acc.setdefault(T, wit)
                        level = nxt
                cur = acc
        for S, wit in cur.items():
            if not self.accepting(S, at_begin=(wit == "")):
                return False, wit
        return True, ""


def included(a: "Lang", b: "Lang", limit: int = 200000) -> Tuple[bool, str]:
    """L(a) subset of L(b) (full-match languages over ALPHABET)? Product exploration of the two lazily built DFAs;
    returns (True, "") or (False, witness string accepted by `a` but not by `b`)."""
    start = (a.initial(), b.initial())
    seen = {start}
    todo: List[Tuple[Tuple[FrozenSet[int], FrozenSet[int]], str]] = [(start, "")]
    n = 0
    while todo:
        (sa, sb), wit = todo.pop(0)
        n += 1
        if n > limit:
            raise AnalysisError("regex inclusion: state space too large")
        if a.accepting(sa, at_begin=(wit == "")) and not b.accepting(sb, at_begin=(wit == "")):
            return False, wit
        if not sa:
            continue  # dead state of a: nothing more can be accepted
        # group characters by their effect to keep the branching small
        succ: Dict[Tuple[FrozenSet[int], FrozenSet[int]], str] = {}
        for ch in ALPHABET:
            na = a.step(sa, ch)
            if not na:
                continue
            nb = b.step(sb, ch)
            succ.setdefault((na, nb), ch)
        for st, ch in succ.items():
            if st not in seen:
                seen.add(st)
                todo.append((st, wit + ch))
    return True, ""


class Seg:
    """A segment of an abstract string: literal text, or a field alphabet^[lo..hi] (hi None = unbounded)."""

    __slots__ = ("kind", "text", "alphabet", "lo", "hi", "why")

    def __init__(self, kind: str, text: str = "", alphabet: FrozenSet[str] = frozenset(), lo: int = 0, hi: Optional[int] = 0, why: str = ""):
        self.kind, self.text, self.alphabet, self.lo, self.hi, self.why = kind, text, alphabet, lo, hi, why

    @staticmethod
    def lit(t: str) -> "Seg":
        return Seg("lit", text=t)

    @staticmethod
    def field(alphabet: Iterable[str], lo: int, hi: Optional[int], why: str = "") -> "Seg":
        return Seg("field", alphabet=frozenset(alphabet), lo=lo, hi=hi, why=why)

    def __repr__(self) -> str:
        if self.kind == "lit":
            return repr(self.text)
        return f"<{describe_alphabet(self.alphabet)}{{{self.lo},{'' if self.hi is None else self.hi}}} {self.why}>"


def segs_regex(segs: Sequence[Seg]) -> str:
    """Regex text with exactly the language of the abstract string (used to build writer languages with repetition)."""
    out = []
    for sg in segs:
        if sg.kind == "lit":
            out.append(re.escape(sg.text))
        else:
            cls = "".join(re.escape(c) for c in sorted(sg.alphabet))
            out.append(f"[{cls}]{{{sg.lo},{'' if sg.hi is None else sg.hi}}}")
    return "".join(out)


def describe_alphabet(a: FrozenSet[str]) -> str:
    for name, s in (("ANY", ANY), ("UNICODE_IDENT", UNICODE_IDENT), ("ASCII_WORD", ASCII_WORD), ("ASCII_ALNUM", ASCII_ALNUM), ("HEX", HEX_LOWER), ("DIGITS", DIGITS)):
        if a == s:
            return name
    if len(a) <= 8:
        return "{" + "".join(sorted(a)) + "}"
    return f"{len(a)} chars"


def show(segs: Sequence[Seg]) -> str:
    return " ".join(repr(s) for s in segs)


# ---------------------------------------------------------------------------------------------
# ambiguity degree (worst-case backtracking), Appendix A6
# ---------------------------------------------------------------------------------------------

def _first(items: Sequence[Tuple[Any, Any]], is_bytes: bool, flags: int) -> Tuple[FrozenSet[str], bool]:
    """(FIRST set, nullable) of a sequence."""
    first: Set[str] = set()
    for op, arg in items:
        name = str(op)
        if name in ("LITERAL", "NOT_LITERAL", "ANY", "IN", "CATEGORY"):
            first |= charset(op, arg, is_bytes, flags)
            return frozenset(first), False
        if name == "SUBPATTERN":
            f, nul = _first(list(arg[-1]), is_bytes, flags)
        elif name == "BRANCH":
            f = frozenset()
            nul = False
            for alt in arg[1]:
                f2, n2 = _first(list(alt), is_bytes, flags)
                f |= f2
                nul = nul or n2
        elif name in ("MAX_REPEAT", "MIN_REPEAT", "POSSESSIVE_REPEAT"):
            f, nul = _first(list(arg[2]), is_bytes, flags)
            nul = nul or arg[0] == 0
        elif name == "AT":
            f, nul = frozenset(), True
        elif name in ("ASSERT", "ASSERT_NOT"):
            f, nul = frozenset(), True
        else:
            return frozenset(ANY), True
        first |= f
        if not nul:
            return frozenset(first), False
    return frozenset(first), True


def _alpha(items: Sequence[Tuple[Any, Any]], is_bytes: bool, flags: int) -> FrozenSet[str]:
    out: Set[str] = set()
    for op, arg in items:
        name = str(op)
        if name in ("LITERAL", "NOT_LITERAL", "ANY", "IN", "CATEGORY"):
            out |= charset(op, arg, is_bytes, flags)
        elif name == "SUBPATTERN":
            out |= _alpha(list(arg[-1]), is_bytes, flags)
        elif name == "BRANCH":
            for alt in arg[1]:
                out |= _alpha(list(alt), is_bytes, flags)
        elif name in ("MAX_REPEAT", "MIN_REPEAT", "POSSESSIVE_REPEAT"):
            out |= _alpha(list(arg[2]), is_bytes, flags)
    return frozenset(out)


def ambiguity(pattern: Union[str, bytes], flags: int = 0, unanchored: bool = False) -> Dict[str, Any]:
    """Degree of worst-case backtracking: number of unbounded repeats along one sequential chain whose body
    alphabet overlaps what may follow them (so a failing suffix makes the engine try every split point), +1 for an
    unanchored search (every start position). `star_height` > 1 with overlap means possibly exponential."""
    is_bytes = isinstance(pattern, bytes)
    tree = sre_parse.parse(pattern, flags)
    fl = tree.state.flags | flags
    details: List[str] = []

    def walk(items: List[Tuple[Any, Any]], follow_first: FrozenSet[str], follow_nullable_to_end: bool) -> Tuple[int, int]:
        """returns (degree, star height) of the sequence given what can follow it."""
        degree = 0
        height = 0
        for i, (op, arg) in enumerate(items):
            name = str(op)
            rest = items[i + 1:]
            rf, rnul = _first(rest, is_bytes, fl)
            cont_first = rf | (follow_first if rnul else frozenset())
            cont_can_fail = bool(rest) and not _all_unbounded_any(rest) or (rnul and not follow_nullable_to_end) or bool(rest)
            if name in ("MAX_REPEAT", "MIN_REPEAT"):
                lo, hi, sub = arg
                sd, sh = walk(list(sub), _first(list(sub), is_bytes, fl)[0] | cont_first, False)
                height = max(height, sh + (1 if hi == MAXREPEAT else 0))
                if hi == MAXREPEAT:
                    body = _alpha(list(sub), is_bytes, fl)
                    something_follows = bool(rest) or not follow_nullable_to_end
                    if something_follows and (body & cont_first):
                        degree += 1
                        details.append(f"{'lazy' if name == 'MIN_REPEAT' else 'greedy'} unbounded repeat over {describe_alphabet(body)} overlaps its continuation")
                    degree += sd if sd else 0
                else:
                    degree += 0
            elif name == "SUBPATTERN":
                sd, sh = walk(list(arg[-1]), cont_first, follow_nullable_to_end and not rest)
                degree += sd
                height = max(height, sh)
            elif name == "BRANCH":
                best = 0
                for alt in arg[1]:
                    sd, sh = walk(list(alt), cont_first, follow_nullable_to_end and not rest)
                    best = max(best, sd)
                    height = max(height, sh)
                degree += best
        return degree, height

    deg, height = walk(list(tree), frozenset(), True)
    anchored_start = bool(list(tree)) and str(list(tree)[0][0]) == "AT" and "BEGINNING" in str(list(tree)[0][1])
    total = deg + (1 if unanchored and not anchored_start else 0)
    return {"degree": total, "repeats": deg, "star_height": height, "details": details, "anchored": anchored_start}


def _all_unbounded_any(items: Sequence[Tuple[Any, Any]]) -> bool:
    return False
