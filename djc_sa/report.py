"""Verdict bookkeeping, evidence files, known findings, exit codes (DESIGN.md Appendix C)."""
from __future__ import annotations

import json
import os
import sys
import time
import traceback
from typing import Any, Dict, List, Optional, Tuple

from .source import AnalysisError

VERIF = os.path.dirname(os.path.dirname(os.path.abspath(__file__)))
EVIDENCE_DIR = os.path.join(VERIF, "evidence")
REPLAY_DIR = os.path.join(EVIDENCE_DIR, "replay")
KNOWN_FILE = os.path.join(VERIF, "known_findings.json")

HOLDS, VIOLATED, UNDECIDED = "HOLDS", "VIOLATED", "UNDECIDED"


class Obligation:
    __slots__ = ("rule", "construct", "loc", "verdict", "message", "nontrivial", "detail")

    def __init__(self, rule: str, construct: str, loc: str, verdict: str, message: str, nontrivial: bool, detail: Any):
        self.rule, self.construct, self.loc, self.verdict = rule, construct, loc, verdict
        self.message, self.nontrivial, self.detail = message, nontrivial, detail

    def as_json(self) -> Dict[str, Any]:
        d = {"rule": self.rule, "construct": self.construct, "at": self.loc, "verdict": self.verdict, "why": self.message}
        if self.detail is not None:
            d["detail"] = self.detail
        return d


class Check:
    """Collects obligations of one property run and turns them into evidence + exit code."""

    def __init__(self, pid: str, tier: str, seed: int = 0, quiet: bool = False):
        self.pid, self.tier, self.seed, self.quiet = pid, tier, seed, quiet
        self.t0 = time.time()
        self.obls: List[Obligation] = []
        self.floors: Dict[str, Tuple[int, int]] = {}
        self.errors: List[str] = []
        self.functions: set = set()
        self.call_sites = 0
        self.paths = 0
        self.explanation = ""
        self.trusted_base: List[str] = []
        self.assumptions: List[str] = []
        self.not_decided: List[str] = []
        self.extra: Dict[str, Any] = {}
        self.rule_docs: Dict[str, str] = {}

    # -- recording ----------------------------------------------------------------------------
    def rule(self, rid: str, doc: str) -> None:
        self.rule_docs[rid] = doc

    def ob(
        self,
        rule: str,
        construct: str,
        loc: str,
        ok: Optional[bool],
        message: str,
        nontrivial: bool = True,
        detail: Any = None,
    ) -> bool:
        v = HOLDS if ok is True else VIOLATED if ok is False else UNDECIDED
        self.obls.append(Obligation(f"{self.pid}-{rule}" if not rule.startswith(self.pid) else rule, construct, loc, v, message, nontrivial, detail))
        return ok is True

    def holds(self, rule: str, construct: str, loc: str, message: str, **kw: Any) -> None:
        self.ob(rule, construct, loc, True, message, **kw)

    def violated(self, rule: str, construct: str, loc: str, message: str, **kw: Any) -> None:
        self.ob(rule, construct, loc, False, message, **kw)

    def undecided(self, rule: str, construct: str, loc: str, message: str, **kw: Any) -> None:
        self.ob(rule, construct, loc, None, message, **kw)

    def floor(self, rule: str, found: int, minimum: int) -> None:
        """A rule matching fewer instances than confirmed by hand passes vacuously -> analysis error."""
        rid = f"{self.pid}-{rule}" if not rule.startswith(self.pid) else rule
        self.floors[rid] = (found, minimum)
        if found < minimum:
            self.errors.append(f"{rid}: instances {found} < floor {minimum}")

    def error(self, msg: str) -> None:
        self.errors.append(msg)

    def borrow(self, rule: str, text: str, fn: Any, *args: Any, only: Any = None) -> None:
        """Run rule function(s) of another property's module on a private Check and adopt their obligations under
        `rule` of THIS property (same construct keys). Floors / analysis errors of the borrowed run are adopted too."""
        sub = Check(self.pid, self.tier, self.seed, quiet=True)
        fn(sub, *args)
        self.rule(rule, text)
        for o in sub.obls:
            if only is not None and not only(o):
                continue
            self.obls.append(type(o)(f"{self.pid}-{rule}", o.construct, o.loc, o.verdict, o.message, o.nontrivial, o.detail))
        for e in sub.errors:
            self.errors.append(f"{self.pid}-{rule} (borrowed): {e}")
        for fk in sub.functions if hasattr(sub, "functions") else []:
            self.analysed(fk)

    def analysed(self, *funcs: str) -> None:
        self.functions.update(funcs)

    # -- output -------------------------------------------------------------------------------
    def _known(self) -> List[Dict[str, Any]]:
        if not os.path.exists(KNOWN_FILE):
            return []
        with open(KNOWN_FILE) as f:
            data = json.load(f)
        return [e for e in data.get("findings", []) if e.get("property") == self.pid]

    def finish(self, write: bool = True) -> int:
        known = [e for e in self._known() if e.get("status") == "known"]
        known_keys = {(e["rule"], e["construct"]): e for e in known}
        new_viol: List[Obligation] = []
        known_hit: List[Tuple[Obligation, Dict[str, Any]]] = []
        for o in self.obls:
            if o.verdict == VIOLATED:
                e = known_keys.get((o.rule, o.construct))
                if e is not None:
                    known_hit.append((o, e))
                else:
                    new_viol.append(o)
        undec = [o for o in self.obls if o.verdict == UNDECIDED]
        for o in undec:
            self.errors.append(f"{o.rule}: undecided at {o.loc} [{o.construct}]: {o.message}")

        out: List[str] = []
        seen_known = set()
        for o, e in known_hit:
            k = (o.rule, o.construct)
            if k in seen_known:
                continue
            seen_known.add(k)
            out.append(f"KNOWN-FINDING: property={self.pid} {o.rule} {o.loc} {e.get('what_fails', o.message)}")
        replay_paths: List[str] = []
        if new_viol and write:
            os.makedirs(REPLAY_DIR, exist_ok=True)
        for i, o in enumerate(new_viol):
            rp = os.path.join(REPLAY_DIR, f"{self.pid}-{i + 1}.json")
            if write:
                with open(rp, "w") as f:
                    json.dump({"property": self.pid, "tier": self.tier, **o.as_json()}, f, indent=1)
            replay_paths.append(rp)
            out.append(f"VIOLATION property={self.pid} replay={rp}")
            out.append(f"  {o.rule} at {o.loc}: {o.message}")
            out.append(f"  construct: {o.construct}")
        for e in self.errors:
            out.append(f"ANALYSIS-ERROR property={self.pid} {e}")

        code = 1 if new_viol else 2 if self.errors else 0
        n_obl = len(self.obls)
        n_ok = sum(1 for o in self.obls if o.verdict == HOLDS)
        distinct_nt = len({(o.rule, o.construct) for o in self.obls if o.nontrivial})
        per_rule: Dict[str, Dict[str, Any]] = {}
        for o in self.obls:
            r = per_rule.setdefault(o.rule, {"instances": 0, "holds": 0, "violated": 0, "undecided": 0})
            r["instances"] += 1
            r[{"HOLDS": "holds", "VIOLATED": "violated", "UNDECIDED": "undecided"}[o.verdict]] += 1
        for rid, (found, minimum) in self.floors.items():
            per_rule.setdefault(rid, {"instances": 0, "holds": 0, "violated": 0, "undecided": 0}).update(
                {"floor": minimum, "matched": found}
            )
        for rid, doc in self.rule_docs.items():
            full = f"{self.pid}-{rid}" if not rid.startswith(self.pid) else rid
            per_rule.setdefault(full, {"instances": 0, "holds": 0, "violated": 0, "undecided": 0})["rule"] = doc
        samples = [o.as_json() for o in self.obls if o.verdict != HOLDS][:10]
        hold_samples = [o for o in self.obls if o.verdict == HOLDS]
        # a spread of discharged obligations, at least one per rule
        seen_rules = set()
        for o in hold_samples:
            if o.rule not in seen_rules:
                seen_rules.add(o.rule)
                samples.append(o.as_json())
        samples = samples[:40]
        ev = {
            "property_id": self.pid,
            "tier": self.tier,
            "seed": self.seed,
            "level": "other",
            "coverage": {
                "explanation": self.explanation
                + " Decides necessary structural obligations of the property from the source, NOT the behaviour itself."
                + (" Not decided: " + "; ".join(self.not_decided) if self.not_decided else ""),
                "obligations": n_obl,
                "discharged": n_ok,
                "undecided": len(undec),
                "violated_new": len(new_viol),
                "violated_known": len(known_hit),
                "evaluations": n_obl,
                "distinct_nontrivial": distinct_nt,
                "rule": "one evaluation = one rule instance (rule id, construct key = module:qualname:normalised statement) "
                "decided on the current tree; non-trivial = the verdict needed a path / dataflow / regex-language "
                "argument rather than a table lookup; distinct by (rule, construct)",
                "samples": samples,
                "functions_analysed": len(self.functions),
                "functions": sorted(self.functions)[:80],
                "call_sites": self.call_sites,
                "paths": self.paths,
                "rules": per_rule,
                "trusted_base": self.trusted_base,
                "exhaustive": False,
                **self.extra,
            },
            "assumptions": self.assumptions,
            "wall_s": round(time.time() - self.t0, 3),
            "violations": len(new_viol),
            "exit_code": code,
            "analysis_errors": self.errors,
        }
        if write:
            os.makedirs(EVIDENCE_DIR, exist_ok=True)
            with open(os.path.join(EVIDENCE_DIR, f"{self.pid}.json"), "w") as f:
                json.dump(ev, f, indent=1, sort_keys=False)
        if not self.quiet:
            for line in out:
                print(line)
            print(
                f"{self.pid} [{self.tier}] obligations={n_obl} discharged={n_ok} known={len(known_hit)} "
                f"violations={len(new_viol)} undecided={len(undec)} functions={len(self.functions)} "
                f"wall={ev['wall_s']}s -> exit {code}"
            )
        self.result_lines = out
        self.evidence = ev
        return code


def run_guarded(pid: str, tier: str, seed: int, fn: Any, quiet: bool = False, write: bool = True) -> Tuple[int, Check]:
    """Run a rule module's `run(check, project)`; map AnalysisError / crashes to exit 2 (never 1)."""
    chk = Check(pid, tier, seed, quiet=quiet)
    try:
        fn(chk)
    except AnalysisError as e:
        chk.error(f"{type(e).__name__}: {e}")
    except Exception as e:  # an internal bug of the analyser is not a violation of the property
        tb = traceback.format_exc(limit=6)
        chk.error(f"internal error {type(e).__name__}: {e} :: {tb.splitlines()[-3:]}")
        if not quiet:
            sys.stderr.write(tb)
    return chk.finish(write=write), chk
