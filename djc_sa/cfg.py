"""Statement-level control-flow graph with exceptional edges, dominators and small dataflow helpers.

Design notes (DESIGN.md, Appendix A1/A2):
* nodes are simple statements and the test expressions / headers of compound statements;
* every node that may raise has an 'x' edge to the innermost protection (except-dispatch, a copy of the
  enclosing `finally`, a `with` exit) or to EXC_EXIT;
* `finally` bodies and `with` exits are duplicated per continuation (normal / exception / return / break /
  continue) so that dominance and reachability stay meaningful;
* nested function definitions are opaque single nodes.
"""
from __future__ import annotations

import ast
from typing import Any, Callable, Dict, Iterable, Iterator, List, Optional, Sequence, Set, Tuple

from .source import AnalysisError, FuncNode, norm, walk_no_nested

Edge = Tuple["Node", str]  # label: n (normal), T / F (branch), b (loop back edge), x (this node raises),
# p (an exception already in flight propagates: dispatch->handler/outer, finally(exc) copy -> outer, with-exit(exc) -> outer)

_CATCH_ALL = {"Exception", "BaseException"}


class Node:
    __slots__ = ("id", "kind", "ast", "succ", "pred", "meta")

    def __init__(self, nid: int, kind: str, node: Optional[ast.AST], meta: Optional[Dict[str, Any]] = None):
        self.id = nid
        self.kind = kind
        self.ast = node
        self.succ: List[Edge] = []
        self.pred: List[Edge] = []
        self.meta: Dict[str, Any] = meta or {}

    @property
    def lineno(self) -> int:
        return getattr(self.ast, "lineno", 0) if self.ast is not None else 0

    def __repr__(self) -> str:
        txt = norm(self.ast)[:60] if self.ast is not None and self.kind not in ("handler",) else ""
        return f"<{self.id}:{self.kind}@{self.lineno} {txt}>"


def may_raise(node: ast.AST) -> bool:
    """Conservative 'this statement/expression can raise' (calls, subscripts, arithmetic, raise, yield...)."""
    for n in walk_no_nested(node, enter_root=False):
        if isinstance(
            n,
            (ast.Call, ast.Raise, ast.Assert, ast.Delete, ast.Yield, ast.YieldFrom, ast.Await, ast.BinOp, ast.Import, ast.ImportFrom),
        ):
            return True
        if isinstance(n, ast.Subscript) and isinstance(n.ctx, (ast.Load, ast.Del)):
            return True
        if isinstance(n, ast.Subscript) and isinstance(n.ctx, ast.Store):
            return True
        if isinstance(n, ast.Starred):
            return True
    return False


class _Target:
    """Lazily created jump target (lets `finally` copies be built only for continuations that occur)."""

    def __init__(self, make: Callable[[], Node]):
        self._make = make
        self._node: Optional[Node] = None

    def get(self) -> Node:
        if self._node is None:
            self._node = self._make()
        return self._node


class _Ctx:
    __slots__ = ("exc", "ret", "brk", "cont")

    def __init__(self, exc: _Target, ret: _Target, brk: Optional[_Target], cont: Optional[_Target]):
        self.exc, self.ret, self.brk, self.cont = exc, ret, brk, cont


class CFG:
    def __init__(self, func: FuncNode):
        self.func = func
        self.nodes: List[Node] = []
        self.entry = self._new("entry", None)
        self.exit = self._new("exit", None)
        self.exc_exit = self._new("exc_exit", None)
        ctx = _Ctx(_Target(lambda: self.exc_exit), _Target(lambda: self.exit), None, None)
        outs = self._block(func.body, ctx, [(self.entry, "n")])
        for n, lab in outs:
            self._edge(n, self.exit, lab)
        self.by_ast: Dict[int, List[Node]] = {}
        for n in self.nodes:
            if n.ast is not None:
                self.by_ast.setdefault(id(n.ast), []).append(n)

    # -- construction -------------------------------------------------------------------------
    def _new(self, kind: str, node: Optional[ast.AST], **meta: Any) -> Node:
        n = Node(len(self.nodes), kind, node, meta)
        self.nodes.append(n)
        return n

    def _edge(self, a: Node, b: Node, label: str) -> None:
        if (b, label) not in a.succ:
            a.succ.append((b, label))
            b.pred.append((a, label))

    def _connect(self, preds: Sequence[Edge], n: Node) -> None:
        for p, lab in preds:
            self._edge(p, n, lab)

    def _simple(self, kind: str, node: ast.AST, ctx: _Ctx, preds: Sequence[Edge], raises: Optional[bool] = None, **meta: Any) -> Node:
        n = self._new(kind, node, **meta)
        self._connect(preds, n)
        if may_raise(node) if raises is None else raises:
            self._edge(n, ctx.exc.get(), "x")
        return n

    def _block(self, stmts: Sequence[ast.stmt], ctx: _Ctx, preds: List[Edge]) -> List[Edge]:
        cur = list(preds)
        for st in stmts:
            if not cur:
                # unreachable code after return/raise/continue: still build it (detached) so that nodes exist
                cur = []
            cur = self._stmt(st, ctx, cur)
        return cur

    def _stmt(self, st: ast.stmt, ctx: _Ctx, preds: List[Edge]) -> List[Edge]:
        if isinstance(st, (ast.FunctionDef, ast.AsyncFunctionDef, ast.ClassDef)):
            n = self._simple("def", st, ctx, preds, raises=bool(getattr(st, "decorator_list", None)))
            return [(n, "n")]
        if isinstance(st, ast.Return):
            n = self._simple("return", st, ctx, preds, raises=may_raise(st.value) if st.value is not None else False)
            self._edge(n, ctx.ret.get(), "n")
            return []
        if isinstance(st, ast.Raise):
            n = self._simple("raise", st, ctx, preds, raises=True)
            return []
        if isinstance(st, ast.Break):
            n = self._simple("break", st, ctx, preds, raises=False)
            if ctx.brk is None:
                raise AnalysisError("break outside loop")
            self._edge(n, ctx.brk.get(), "n")
            return []
        if isinstance(st, ast.Continue):
            n = self._simple("continue", st, ctx, preds, raises=False)
            if ctx.cont is None:
                raise AnalysisError("continue outside loop")
            self._edge(n, ctx.cont.get(), "b")
            return []
        if isinstance(st, ast.If):
            t = self._simple("test", st.test, ctx, preds, owner=st)
            outs = self._block(st.body, ctx, [(t, "T")])
            outs += self._block(st.orelse, ctx, [(t, "F")]) if st.orelse else [(t, "F")]
            return outs
        if isinstance(st, ast.While):
            t = self._simple("test", st.test, ctx, preds, owner=st, loop=True)
            after = self._new("join", None, why="after-while", owner=st)
            lctx = _Ctx(ctx.exc, ctx.ret, _Target(lambda: after), _Target(lambda: t))
            body_out = self._block(st.body, lctx, [(t, "T")])
            for n, _lab in body_out:
                self._edge(n, t, "b")
            const_true = isinstance(st.test, ast.Constant) and bool(st.test.value)
            outs: List[Edge] = []
            if not const_true:
                outs = self._block(st.orelse, ctx, [(t, "F")]) if st.orelse else [(t, "F")]
            self._connect(outs, after)
            return [(after, "n")]
        if isinstance(st, (ast.For, ast.AsyncFor)):
            it = self._simple("for_init", st.iter, ctx, preds, owner=st)
            h = self._simple("for_iter", st.target, ctx, [(it, "n")], raises=True, owner=st, loop=True)
            after = self._new("join", None, why="after-for", owner=st)
            lctx = _Ctx(ctx.exc, ctx.ret, _Target(lambda: after), _Target(lambda: h))
            body_out = self._block(st.body, lctx, [(h, "T")])
            for n, _lab in body_out:
                self._edge(n, h, "b")
            outs = self._block(st.orelse, ctx, [(h, "F")]) if st.orelse else [(h, "F")]
            self._connect(outs, after)
            return [(after, "n")]
        if isinstance(st, (ast.With, ast.AsyncWith)):
            return self._with(st, 0, ctx, preds)
        if isinstance(st, ast.Try) or st.__class__.__name__ == "TryStar":
            return self._try(st, ctx, preds)  # type: ignore[arg-type]
        if isinstance(st, ast.Match):
            raise AnalysisError(f"unsupported statement kind: match (line {st.lineno})")
        # simple statements: Expr, Assign, AugAssign, AnnAssign, Assert, Delete, Pass, Import, Global, Nonlocal ...
        kind = "stmt"
        n = self._simple(kind, st, ctx, preds)
        if isinstance(st, ast.Assert):
            pass
        return [(n, "n")]

    def _wrap(self, ctx: _Ctx, make_copy: Callable[[str, _Target], Node]) -> _Ctx:
        """Context in which every jump first runs a copy of a cleanup (finally body / with exit)."""

        def wrap(mode: str, t: Optional[_Target]) -> Optional[_Target]:
            if t is None:
                return None
            return _Target(lambda: make_copy(mode, t))

        return _Ctx(wrap("exc", ctx.exc), wrap("return", ctx.ret), wrap("break", ctx.brk), wrap("continue", ctx.cont))  # type: ignore[arg-type]

    def _with(self, st: ast.With, idx: int, ctx: _Ctx, preds: List[Edge]) -> List[Edge]:
        item = st.items[idx]
        enter = self._simple("with_enter", item.context_expr, ctx, preds, raises=True, owner=st, item=item)

        def make_copy(mode: str, target: _Target) -> Node:
            # the exit itself may raise (e.g. the generator's code after `yield`): edge to the OUTER exc target
            x = self._new("with_exit", item.context_expr, owner=st, item=item, mode=mode)
            self._edge(x, target.get(), "p" if mode == "exc" else ("b" if mode == "continue" else "n"))
            if mode != "exc":
                self._edge(x, ctx.exc.get(), "x")
            return x

        inner = self._wrap(ctx, make_copy)
        if idx + 1 < len(st.items):
            outs = self._with(st, idx + 1, inner, [(enter, "n")])
        else:
            outs = self._block(st.body, inner, [(enter, "n")])
        if not outs:
            return []
        x = self._new("with_exit", item.context_expr, owner=st, item=item, mode="normal")
        self._connect(outs, x)
        self._edge(x, ctx.exc.get(), "x")
        return [(x, "n")]

    def _try(self, st: ast.Try, ctx: _Ctx, preds: List[Edge]) -> List[Edge]:
        if st.finalbody:

            def make_copy(mode: str, target: _Target) -> Node:
                j = self._new("finally", None, owner=st, mode=mode)
                outs = self._block(st.finalbody, ctx, [(j, "n")])
                for n, _lab in outs:
                    self._edge(n, target.get(), "p" if mode == "exc" else ("b" if mode == "continue" else "n"))
                return j

            fctx = self._wrap(ctx, make_copy)
        else:
            fctx = ctx

        if st.handlers:
            dispatch = self._new("dispatch", None, owner=st)
            bctx = _Ctx(_Target(lambda: dispatch), fctx.ret, fctx.brk, fctx.cont)
        else:
            dispatch = None
            bctx = fctx

        outs = self._block(st.body, bctx, preds)
        if st.orelse:
            outs = self._block(st.orelse, fctx, outs)

        if dispatch is not None:
            catch_all = False
            for h in st.handlers:
                hn = self._new("handler", h, owner=st)
                self._edge(dispatch, hn, "p")
                outs += self._block(h.body, fctx, [(hn, "n")])
                if h.type is None:
                    catch_all = True
                else:
                    names = [h.type] if not isinstance(h.type, ast.Tuple) else list(h.type.elts)
                    for nm in names:
                        if isinstance(nm, ast.Name) and nm.id in _CATCH_ALL:
                            catch_all = True
            dispatch.meta["catch_all"] = catch_all
            if not catch_all:
                self._edge(dispatch, fctx.exc.get(), "p")
            if not dispatch.pred:
                # body cannot raise: handlers unreachable; keep the nodes but they stay detached
                pass

        if st.finalbody:
            if not outs:
                return []
            j = self._new("finally", None, owner=st, mode="normal")
            self._connect(outs, j)
            return self._block(st.finalbody, ctx, [(j, "n")])
        return outs

    # -- queries ------------------------------------------------------------------------------
    def nodes_of(self, node: ast.AST) -> List[Node]:
        """CFG nodes created for an AST statement/expression (several when duplicated in finally copies)."""
        return self.by_ast.get(id(node), [])

    def node_containing(self, expr: ast.AST) -> List[Node]:
        """CFG nodes whose AST contains `expr` (walks up parents until a node's AST is hit)."""
        n: Optional[ast.AST] = expr
        while n is not None:
            if id(n) in self.by_ast:
                return self.by_ast[id(n)]
            n = getattr(n, "parent", None)
        return []

    def reachable_from(self, start: Iterable[Node], labels: Optional[Set[str]] = None, stop: Optional[Callable[[Node], bool]] = None) -> Set[Node]:
        seen: Set[Node] = set()
        todo = list(start)
        while todo:
            n = todo.pop()
            if n in seen:
                continue
            seen.add(n)
            if stop is not None and stop(n) and n not in start:
                continue
            for s, lab in n.succ:
                if labels is None or lab in labels:
                    todo.append(s)
        return seen

    def live_nodes(self) -> Set[Node]:
        return self.reachable_from([self.entry])

    def dominators(self, root: Optional[Node] = None, reverse: bool = False, exits: Optional[Sequence[Node]] = None) -> Dict[Node, Set[Node]]:
        """Iterative dominator sets. reverse=True gives post-dominators w.r.t. `exits` (default: exit and exc_exit)."""
        if not reverse:
            root = root or self.entry
            nodes = list(self.reachable_from([root]))
            preds = lambda n: [p for p, _ in n.pred]  # noqa: E731
            roots = [root]
        else:
            roots = list(exits) if exits is not None else [self.exit, self.exc_exit]
            live = self.live_nodes()
            nodes = [n for n in live]
            preds = lambda n: [s for s, _ in n.succ if s in live]  # noqa: E731
        allset = set(nodes)
        dom: Dict[Node, Set[Node]] = {n: set(allset) for n in nodes}
        for r in roots:
            if r in dom:
                dom[r] = {r}
        changed = True
        order = sorted(nodes, key=lambda n: n.id, reverse=reverse)
        while changed:
            changed = False
            for n in order:
                if n in roots:
                    continue
                ps = [dom[p] for p in preds(n) if p in dom]
                new = set.intersection(*ps) if ps else set()
                new = new | {n}
                if new != dom[n]:
                    dom[n] = new
                    changed = True
        return dom

    def dominates(self, a: Node, b: Node, dom: Optional[Dict[Node, Set[Node]]] = None) -> bool:
        dom = dom or self.dominators()
        return b in dom and a in dom[b]

    def forward(
        self,
        init: Any,
        transfer: Callable[[Node, Any, str], Any],
        join: Callable[[Any, Any], Any],
        start: Optional[Node] = None,
        max_iter: int = 20000,
    ) -> Dict[Node, Any]:
        """Generic forward dataflow. `transfer(node, in_state, out_label)` gives the state on that out-edge;
        returning None kills the edge. States must support ==. Result: IN state per node."""
        start = start or self.entry
        IN: Dict[Node, Any] = {start: init}
        work = [start]
        it = 0
        while work:
            it += 1
            if it > max_iter:
                raise AnalysisError("dataflow did not converge")
            n = work.pop()
            st = IN[n]
            for s, lab in n.succ:
                out = transfer(n, st, lab)
                if out is None:
                    continue
                if s in IN:
                    merged = join(IN[s], out)
                    if merged == IN[s]:
                        continue
                    IN[s] = merged
                else:
                    IN[s] = out
                work.append(s)
        return IN

    def dump(self) -> str:
        lines = []
        for n in self.nodes:
            lines.append(f"{n!r} -> " + ", ".join(f"{s.id}[{lab}]" for s, lab in n.succ))
        return "\n".join(lines)


# ---------------------------------------------------------------------------------------------
# Syntactic path conditions ("control-dependent on")
# ---------------------------------------------------------------------------------------------

def always_exits(stmts: Sequence[ast.stmt]) -> bool:
    """True if the block never falls through (ends in return / raise / continue / break on all paths)."""
    if not stmts:
        return False
    last = stmts[-1]
    if isinstance(last, (ast.Return, ast.Raise, ast.Continue, ast.Break)):
        return True
    if isinstance(last, ast.If):
        return bool(last.orelse) and always_exits(last.body) and always_exits(last.orelse)
    if isinstance(last, (ast.With, ast.AsyncWith)):
        return always_exits(last.body)
    if isinstance(last, ast.While) and isinstance(last.test, ast.Constant) and last.test.value is True:
        # `while True:` is left only through break (or return / raise, which do not fall through)
        def _breaks(block: Sequence[ast.stmt]) -> bool:
            for st in block:
                if isinstance(st, ast.Break):
                    return True
                if isinstance(st, (ast.For, ast.While, ast.AsyncFor)):
                    if _breaks(st.orelse):
                        return True
                    continue
                for fld in ("body", "orelse", "finalbody"):
                    if _breaks(getattr(st, fld, []) or []):
                        return True
                for h in getattr(st, "handlers", []) or []:
                    if _breaks(h.body):
                        return True
            return False

        return not _breaks(last.body)
    if isinstance(last, ast.Try):
        if last.finalbody and always_exits(last.finalbody):
            return True
        parts = [last.orelse or last.body] + [h.body for h in last.handlers]
        return all(always_exits(p) for p in parts)
    return False


def path_conditions(stmt: ast.AST, upto: Optional[ast.AST] = None) -> List[Tuple[ast.expr, bool]]:
    """Conditions known to hold when `stmt` executes, within its function: [(test, polarity)].

    Sources: enclosing `if`/`while` tests (polarity by branch) and earlier sibling `if`s whose taken branch
    never falls through (early return/raise/continue/break): the negation holds afterwards.
    Loop back edges are ignored for sibling guards inside the same loop body (each iteration re-tests them).
    """
    conds: List[Tuple[ast.expr, bool]] = []
    node: ast.AST = stmt
    while True:
        par = getattr(node, "parent", None)
        if par is None or par is upto or isinstance(par, (ast.FunctionDef, ast.AsyncFunctionDef, ast.Lambda, ast.ClassDef, ast.Module)):
            # still account for earlier siblings in the function body
            if par is not None and not isinstance(par, ast.Lambda) and hasattr(par, "body") and isinstance(par.body, list) and node in par.body:
                conds.extend(_sibling_guards(par.body, node))
            break
        for field in ("body", "orelse", "finalbody"):
            blk = getattr(par, field, None)
            if isinstance(blk, list) and node in blk:
                conds.extend(_sibling_guards(blk, node))
                if isinstance(par, (ast.If, ast.While)) and field == "body":
                    conds.append((par.test, True))
                elif isinstance(par, ast.If) and field == "orelse":
                    conds.append((par.test, False))
                break
        else:
            if isinstance(par, ast.ExceptHandler) and node in par.body:
                conds.extend(_sibling_guards(par.body, node))
            elif isinstance(par, ast.IfExp):
                if node is par.body:
                    conds.append((par.test, True))
                elif node is par.orelse:
                    conds.append((par.test, False))
            elif isinstance(par, ast.BoolOp) and isinstance(par.op, ast.And):
                i = par.values.index(node) if node in par.values else 0
                for v in par.values[:i]:
                    conds.append((v, True))
            elif isinstance(par, ast.BoolOp) and isinstance(par.op, ast.Or):
                i = par.values.index(node) if node in par.values else 0
                for v in par.values[:i]:
                    conds.append((v, False))
        node = par
    return conds


def _sibling_guards(block: List[ast.stmt], node: ast.AST) -> List[Tuple[ast.expr, bool]]:
    out: List[Tuple[ast.expr, bool]] = []
    for st in block:
        if st is node:
            break
        if isinstance(st, ast.If):
            if always_exits(st.body) and not (st.orelse and always_exits(st.orelse)):
                out.append((st.test, False))
            elif st.orelse and always_exits(st.orelse) and not always_exits(st.body):
                out.append((st.test, True))
    return out


def flatten_conj(conds: List[Tuple[ast.expr, bool]]) -> List[Tuple[ast.expr, bool]]:
    """Split `a and b` (positive) and `not (a or b)` (negative) into atoms; strip `not`."""
    out: List[Tuple[ast.expr, bool]] = []
    todo = list(conds)
    while todo:
        e, pol = todo.pop(0)
        if isinstance(e, ast.UnaryOp) and isinstance(e.op, ast.Not):
            todo.insert(0, (e.operand, not pol))
        elif isinstance(e, ast.BoolOp) and ((isinstance(e.op, ast.And) and pol) or (isinstance(e.op, ast.Or) and not pol)):
            for v in reversed(e.values):
                todo.insert(0, (v, pol))
        else:
            out.append((e, pol))
    return out


def cond_atoms(stmt: ast.AST) -> List[Tuple[str, bool]]:
    """Normalised atoms of the path condition of `stmt`."""
    return [(norm(e), pol) for e, pol in flatten_conj(path_conditions(stmt))]


def disj_atoms(e: ast.expr) -> List[str]:
    """Normalised disjuncts of `a or b or c`."""
    if isinstance(e, ast.BoolOp) and isinstance(e.op, ast.Or):
        out: List[str] = []
        for v in e.values:
            out.extend(disj_atoms(v))
        return out
    return [norm(e)]
