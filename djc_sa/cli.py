"""Command line: ./check <ID> [--tier quick|thorough] [--replay file] [--repo dir] [--rev git-rev]."""
from __future__ import annotations

import argparse
import importlib
import json
import os
import sys
from typing import List

from .report import Check, run_guarded
from .source import AnalysisError, Project

CLAIMED = ["C01", "C03", "C04", "C05", "C06", "C07", "C08", "C09", "C10", "C11", "C12", "C13", "C14", "C15", "C16", "C17", "C18", "C19"]
NOT_APPLICABLE = ["C02", "C20"]


def load_project(args: argparse.Namespace) -> Project:
    if args.rev:
        return Project.from_git(args.rev, args.repo)
    return Project.load(args.repo)


def run_property(pid: str, tier: str, seed: int, args: argparse.Namespace, quiet: bool = False, write: bool = True):
    def body(chk: Check) -> None:
        mod = importlib.import_module(f"djc_sa.rules.{pid}")
        proj = load_project(args)
        chk.extra["source"] = proj.origin
        chk.extra["modules_parsed"] = len(proj.modules)
        mod.run(chk, proj)

    return run_guarded(pid, tier, seed, body, quiet=quiet, write=write)


def main(argv: List[str]) -> int:
    ap = argparse.ArgumentParser(prog="check")
    ap.add_argument("target", help="property id (C01..C19), 'all', or 'selftest'")
    ap.add_argument("--tier", default=os.environ.get("VERIF_TIER", "quick"), choices=["quick", "thorough"])
    ap.add_argument("--replay", default=None, help="replay file written by an earlier violation")
    ap.add_argument("--repo", default=os.environ.get("DJC_REPO", "/repo"))
    ap.add_argument("--rev", default=None, help="analyse a git revision of the repo instead of the working tree")
    ap.add_argument("--no-write", action="store_true", help="do not write evidence / replay files")
    ap.add_argument("--only", default=None, help="selftest: restrict to one property")
    ap.add_argument("--jobs", type=int, default=int(os.environ.get("VERIF_JOBS", "16")))
    args = ap.parse_args(argv)
    try:
        seed = int(os.environ.get("VERIF_SEED", "0"))
    except ValueError:
        seed = 0

    if args.target == "selftest":
        from .selftest import main as st_main

        return st_main(args)

    if args.target == "renamefuzz":
        from .selftest import rename_main

        return rename_main(args)

    if args.target == "refactorfuzz":
        from .selftest import refactor_main

        return refactor_main(args)

    if args.target == "all":
        worst = 0
        for pid in CLAIMED:
            code, _ = run_property(pid, args.tier, seed, args, write=not args.no_write)
            worst = max(worst, code) if code != 1 and worst != 1 else 1
        return worst

    pid = args.target.upper()
    if pid in NOT_APPLICABLE:
        print(f"{pid}: not applicable to static analysis (see DESIGN.md section 5); nothing is claimed")
        return 0
    if pid not in CLAIMED:
        print(f"ANALYSIS-ERROR property={pid} unknown property")
        return 2

    if args.replay:
        with open(args.replay) as f:
            rp = json.load(f)
        code, chk = run_property(pid, rp.get("tier", args.tier), seed, args, quiet=True, write=False)
        hit = [o for o in chk.obls if o.rule == rp["rule"] and o.construct == rp["construct"] and o.verdict == "VIOLATED"]
        if hit:
            o = hit[0]
            print(f"VIOLATION property={pid} replay={args.replay}")
            print(f"  {o.rule} at {o.loc}: {o.message}")
            return 1
        print(f"replay: {rp['rule']} [{rp['construct']}] no longer violated on the current tree")
        return 0

    code, chk = run_property(pid, args.tier, seed, args, write=not args.no_write)
    if args.tier == "thorough" and not args.rev:
        # informational: the checker's own both-ways self-test for this property (never changes the exit code)
        try:
            from .selftest import refactor_summary_for, regression_replay_for, rename_summary_for, summary_for

            st = summary_for(pid, args)
            rr = regression_replay_for(pid, args)
            rf = rename_summary_for(pid, args)
            xf = refactor_summary_for(pid, args)
            if st is not None:
                print(f"{pid} selftest: {st.get('summary')}")
            print(f"{pid} regression replay: {rr['summary']}")
            print(f"{pid} rename fuzz: {rf['summary']}")
            print(f"{pid} refactor fuzz: {xf['summary']}")
            for r in xf["false_alarms"]:
                print(f"SELFTEST-WARNING {pid}: rewrite {r} raised a false alarm")
            for r in (st or {}).get("failed", []):
                print(f"SELFTEST-WARNING {pid}: variant `{r.get('variant')}` -> {r.get('result')} exit={r.get('exit')} fired={r.get('fired')}")
            for r in rr["replays"]:
                if r["result"] == "FAILED":
                    print(f"SELFTEST-WARNING {pid}: finding {r['finding']} is not reported on {r['fix_commit']}~1: {r.get('missing')}")
            for r in rf["false_alarms"]:
                print(f"SELFTEST-WARNING {pid}: rename {r} raised a false alarm")
            if not args.no_write:
                p = os.path.join(os.path.dirname(os.path.dirname(os.path.abspath(__file__))), "evidence", f"{pid}.json")
                with open(p) as f:
                    ev = json.load(f)
                if st is not None:
                    ev["coverage"]["selftest"] = st
                ev["coverage"]["regression_replay"] = rr
                ev["coverage"]["rename_fuzz"] = rf
                ev["coverage"]["refactor_fuzz"] = xf
                with open(p, "w") as f:
                    json.dump(ev, f, indent=1)
        except Exception as e:  # the self-test is informational only
            print(f"{pid} selftest: skipped ({type(e).__name__}: {e})")
    return code


if __name__ == "__main__":
    try:
        rc = main(sys.argv[1:])
    except AnalysisError as e:
        print(f"ANALYSIS-ERROR {e}")
        rc = 2
    except SystemExit:
        raise
    except Exception as e:  # never let a traceback look like a violation (exit 1)
        import traceback

        traceback.print_exc()
        print(f"ANALYSIS-ERROR internal {type(e).__name__}: {e}")
        rc = 2
    sys.stdout.flush()
    sys.exit(rc)
