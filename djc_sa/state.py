"""Process-global mutable state: inventory, classification of every access site, per-function
insert/remove summaries (DESIGN.md C06-S0, C07-S0/S1, Appendix A3/A4)."""
from __future__ import annotations

import ast
from typing import Any, Dict, Iterable, Iterator, List, Optional, Set, Tuple

from .astq import assignments, decorators, params
from .callgraph import CallGraph, fkey
from .source import (
    FuncNode,
    Module,
    Project,
    ancestors,
    assign_targets,
    body_walk,
    dotted,
    enclosing_func,
    enclosing_stmt,
    last_attr,
    norm,
    parent,
    qual_of,
)

MUTABLE_CTORS = {
    "dict", "list", "set", "deque", "defaultdict", "OrderedDict", "Counter",
    "WeakValueDictionary", "WeakKeyDictionary", "WeakSet",
}
INSERT_METHODS = {"add", "append", "appendleft", "setdefault", "update", "insert", "extend", "extendleft", "set", "__setitem__"}
REMOVE_METHODS = {"pop", "remove", "discard", "popitem", "popleft", "clear", "delete", "__delitem__"}
READ_METHODS = {"get", "has", "has_key", "__contains__", "index", "count", "__getitem__"}
WHOLE_METHODS = {"copy", "keys", "values", "items", "__len__", "__iter__", "difference", "union", "intersection"}
WHOLE_FUNCS = {"len", "list", "tuple", "set", "frozenset", "sorted", "bool", "dict", "iter", "any", "all", "sum", "max", "min", "reversed", "enumerate"}
BULK_KEY = "<bulk>"


class GlobalVar:
    def __init__(self, mod: Module, name: str, node: ast.AST, kind: str, detail: str = ""):
        self.mod, self.name, self.node, self.kind, self.detail = mod, name, node, kind, detail

    @property
    def key(self) -> str:
        return f"{self.mod.name.replace('django_components.', '')}:{self.name}"

    def __repr__(self) -> str:
        return f"<G {self.key} {self.kind}>"


class Access:
    """One syntactic access to a global container.

    kind: insert | remove | read | contains | whole | truth | algebra | rebind | escape | attr |
          elem-insert | elem-remove | elem-read | elem-whole   (elem-* = on the value stored under a key)
    """

    __slots__ = ("g", "kind", "key", "elem", "node", "mod", "func", "how")

    def __init__(self, g: GlobalVar, kind: str, key: Optional[ast.AST], elem: Optional[ast.AST], node: ast.AST, mod: Module, func: Optional[FuncNode], how: str):
        self.g, self.kind, self.key, self.elem, self.node, self.mod, self.func, self.how = g, kind, key, elem, node, mod, func, how

    @property
    def fq(self) -> str:
        return f"{self.mod.name}:{qual_of(self.node)}"

    @property
    def loc(self) -> str:
        return self.mod.loc(self.node)

    def stmt(self) -> ast.stmt:
        return enclosing_stmt(self.node)

    def __repr__(self) -> str:
        k = norm(self.key) if self.key is not None else "-"
        return f"<{self.kind} {self.g.key}[{k}] {self.how} @{self.loc}>"


def _value_kind(proj: Project, mod: Module, v: Optional[ast.AST]) -> Optional[Tuple[str, str]]:
    if v is None:
        return None
    if isinstance(v, ast.Dict):
        return ("dict", "literal")
    if isinstance(v, ast.List):
        return ("list", "literal")
    if isinstance(v, ast.Set):
        return ("set", "literal")
    if isinstance(v, (ast.DictComp, ast.ListComp, ast.SetComp)):
        return ("container", "comprehension")
    if isinstance(v, ast.Call):
        d = dotted(v.func)
        if d:
            la = d.split(".")[-1]
            if la in MUTABLE_CTORS:
                return ("weakdict" if la.startswith("Weak") else la if la in ("dict", "list", "set", "deque") else "container", d)
            r = proj.resolve(mod, d)
            if r and r[0] == "def" and isinstance(r[2], ast.ClassDef):
                return ("instance", f"{r[1].name}:{r[2].name}")
            if r and r[0] == "external" and la[:1].isupper():
                return ("instance", r[1])
    return None


def inventory(proj: Project) -> Dict[str, GlobalVar]:
    """All module-level names bound to mutable containers / instances / lazy singletons, lru_cache'd functions,
    and class-level mutable attributes."""
    out: Dict[str, GlobalVar] = {}
    for m in proj.modules.values():
        global_decls: Set[str] = set()
        for n in ast.walk(m.tree):
            if isinstance(n, ast.Global):
                global_decls.update(n.names)
        for name, sts in m.assigns.items():
            if name.startswith("__") and name.endswith("__"):
                continue
            gv: Optional[GlobalVar] = None
            for st in sts:
                val = st.value if isinstance(st, (ast.Assign, ast.AnnAssign)) else None
                vk = _value_kind(proj, m, val)
                if vk:
                    gv = GlobalVar(m, name, st, vk[0], vk[1])
                    break
                if isinstance(val, ast.Constant) and val.value is None and name in global_decls:
                    gv = GlobalVar(m, name, st, "lazy", "None + global rebinding")
                    break
            if gv is None and name in global_decls:
                gv = GlobalVar(m, name, sts[0], "rebound", "rebound through `global`")
            if gv is not None:
                out[gv.key] = gv
        for q, f in m.funcs():
            for d in f.decorator_list:
                dn = dotted(d.func if isinstance(d, ast.Call) else d) or ""
                if dn.split(".")[-1] in ("lru_cache", "cache", "cached_property"):
                    if dn.split(".")[-1] == "cached_property":
                        continue
                    bound = "unbounded"
                    if isinstance(d, ast.Call):
                        for k in d.keywords:
                            if k.arg == "maxsize" and isinstance(k.value, ast.Constant) and isinstance(k.value.value, int):
                                bound = f"maxsize={k.value.value}"
                        if d.args and isinstance(d.args[0], ast.Constant) and isinstance(d.args[0].value, int):
                            bound = f"maxsize={d.args[0].value}"
                    elif dn.split(".")[-1] == "lru_cache":
                        bound = "maxsize=128"
                    gv = GlobalVar(m, q, f, "lru_cache", bound)
                    out[gv.key] = gv
        for q, c in m.defs.items():
            if isinstance(c, ast.ClassDef):
                for st in c.body:
                    if isinstance(st, (ast.Assign, ast.AnnAssign)):
                        vk = _value_kind(proj, m, st.value)
                        if vk and vk[0] != "instance":
                            for tgt, _v in assign_targets(st):
                                if isinstance(tgt, ast.Name):
                                    gv = GlobalVar(m, f"{q}.{tgt.id}", st, "classattr:" + vk[0], vk[1])
                                    out[gv.key] = gv
    return out


# ---------------------------------------------------------------------------------------------
# scoping
# ---------------------------------------------------------------------------------------------

def _binds_locally(func: ast.AST, name: str) -> bool:
    if isinstance(func, ast.Lambda):
        a = func.args
        return name in [x.arg for x in a.posonlyargs + a.args + a.kwonlyargs] or (a.vararg and a.vararg.arg == name) or (a.kwarg and a.kwarg.arg == name)  # type: ignore[return-value]
    assert isinstance(func, (ast.FunctionDef, ast.AsyncFunctionDef))
    if name in params(func):
        return True
    is_global = False
    bound = False
    for n in body_walk(func):
        if isinstance(n, (ast.Global, ast.Nonlocal)) and name in n.names:
            is_global = True
        if isinstance(n, ast.Name) and n.id == name and isinstance(n.ctx, (ast.Store, ast.Del)):
            bound = True
        if isinstance(n, (ast.FunctionDef, ast.AsyncFunctionDef, ast.ClassDef)) and n.name == name:
            bound = True
        if isinstance(n, (ast.Import, ast.ImportFrom)):
            for a in n.names:
                if (a.asname or a.name.split(".")[0]) == name:
                    bound = True
    return bound and not is_global


def refers_to_global(node: ast.Name) -> bool:
    """False if an enclosing function/lambda/comprehension binds the name locally."""
    for a in ancestors(node):
        if isinstance(a, (ast.FunctionDef, ast.AsyncFunctionDef, ast.Lambda)):
            if _binds_locally(a, node.id):
                return False
        if isinstance(a, (ast.ListComp, ast.SetComp, ast.DictComp, ast.GeneratorExp)):
            for gen in a.generators:
                for n in ast.walk(gen.target):
                    if isinstance(n, ast.Name) and n.id == node.id:
                        return False
        if isinstance(a, ast.ClassDef):
            continue
    return True


def global_refs(proj: Project, gv: GlobalVar) -> Iterator[Tuple[Module, ast.AST]]:
    """Expression nodes (Name or `module.name` Attribute) that denote the global container."""
    if "." in gv.name:  # class attribute: Cls.attr, self.attr, cls.attr
        cls_q, attr = gv.name.rsplit(".", 1)
        for m in proj.modules.values():
            for n in ast.walk(m.tree):
                if isinstance(n, ast.Attribute) and n.attr == attr:
                    b = n.value
                    if isinstance(b, ast.Name) and b.id in ("self", "cls"):
                        c = next((a for a in ancestors(n) if isinstance(a, ast.ClassDef)), None)
                        if c is not None and m is gv.mod and qual_of(c) == cls_q:
                            yield m, n
                    else:
                        r = proj.resolve_expr(m, b)
                        if r and r[0] == "def" and r[1] is gv.mod and isinstance(r[2], ast.ClassDef) and qual_of(r[2]) == cls_q:
                            yield m, n
        return
    for m in proj.modules.values():
        for n in ast.walk(m.tree):
            if isinstance(n, ast.Name) and not isinstance(parent(n), (ast.Global,)):
                if n.id not in m.assigns and n.id not in m.imports:
                    continue
                r = proj.resolve(m, n.id)
                if r and r[0] == "global" and r[1] is gv.mod and r[2] == gv.name and refers_to_global(n):
                    yield m, n
            elif isinstance(n, ast.Attribute) and n.attr == gv.name and isinstance(n.value, (ast.Name, ast.Attribute)):
                r = proj.resolve_expr(m, n.value)
                if r and r[0] == "module" and r[1] is gv.mod:
                    yield m, n


# ---------------------------------------------------------------------------------------------
# access classification
# ---------------------------------------------------------------------------------------------

def _method_access(g: GlobalVar, meth: str, call: ast.Call) -> Tuple[str, Optional[ast.AST]]:
    a0 = call.args[0] if call.args else None
    if meth in INSERT_METHODS:
        if meth == "update" or meth in ("extend", "extendleft"):
            return "insert", None  # bulk
        if meth == "insert":
            return "insert", call.args[1] if len(call.args) > 1 else None
        return "insert", a0
    if meth in REMOVE_METHODS:
        if meth in ("clear", "popitem", "popleft"):
            return "remove", None
        if meth == "pop" and a0 is None:
            return "remove", None
        return "remove", a0
    if meth in READ_METHODS:
        return "read", a0
    if meth in WHOLE_METHODS:
        return "whole", None
    return "attr", None


def classify_ref(g: GlobalVar, m: Module, ref: ast.AST) -> List[Access]:
    f = enclosing_func(ref)
    par = parent(ref)
    out: List[Access] = []

    def acc(kind: str, key: Optional[ast.AST], node: ast.AST, how: str, elem: Optional[ast.AST] = None) -> Access:
        a = Access(g, kind, key, elem, node, m, f, how)
        out.append(a)
        return a

    def chained(base_access_key: Optional[ast.AST], node: ast.AST) -> bool:
        """`<element of G>.method(x)` -> elem-* access. `node` is the expression yielding the element."""
        p = parent(node)
        if isinstance(p, ast.Attribute) and p.value is node:
            pp = parent(p)
            if isinstance(pp, ast.Call) and pp.func is p:
                kind, k = _method_access(g, p.attr, pp)
                if kind in ("insert", "remove", "read", "whole"):
                    acc("elem-" + kind, base_access_key, pp, f"element.{p.attr}()", elem=k)
                    return True
        if isinstance(p, ast.UnaryOp) and isinstance(p.op, ast.Not):
            acc("elem-whole", base_access_key, p, "not element")
            return True
        if isinstance(p, ast.Compare) and node in p.comparators and any(isinstance(o, (ast.In, ast.NotIn)) for o in p.ops):
            acc("elem-read", base_access_key, p, "x in element", elem=p.left)
            return True
        return False

    if isinstance(par, ast.Subscript) and par.value is ref:
        if isinstance(par.ctx, ast.Store):
            acc("insert", par.slice, par, "G[k] = v")
        elif isinstance(par.ctx, ast.Del):
            acc("remove", par.slice, par, "del G[k]")
        else:
            if not chained(par.slice, par):
                pp = parent(par)
                if isinstance(pp, ast.AugAssign) and pp.target is par:
                    acc("insert", par.slice, par, "G[k] op= v")
                else:
                    acc("read", par.slice, par, "G[k]")
            else:
                acc("read", par.slice, par, "G[k] (then element op)")
    elif isinstance(par, ast.Attribute) and par.value is ref:
        pp = parent(par)
        if isinstance(pp, ast.Call) and pp.func is par:
            kind, k = _method_access(g, par.attr, pp)
            acc(kind, k, pp, f"G.{par.attr}()")
            if par.attr in ("setdefault", "get", "pop"):
                chained(k, pp)
        else:
            acc("attr", None, par, f"G.{par.attr}")
    elif isinstance(par, ast.Compare) and ref in par.comparators and any(isinstance(o, (ast.In, ast.NotIn)) for o in par.ops):
        acc("contains", par.left, par, "k in G")
    elif isinstance(par, ast.Compare):
        acc("truth", None, par, "comparison of G (identity / None test)")
    elif isinstance(par, (ast.For, ast.AsyncFor)) and par.iter is ref:
        acc("whole", None, par, "for _ in G")
    elif isinstance(par, ast.comprehension) and par.iter is ref:
        acc("whole", None, ref, "comprehension over G")
    elif isinstance(par, ast.Call) and ref in par.args:
        fn = last_attr(par.func) or "?"
        if isinstance(par.func, ast.Name) and fn in WHOLE_FUNCS:
            acc("whole", None, par, f"{fn}(G)")
        elif isinstance(par.func, ast.Name) and fn in ("isinstance", "id", "type", "cast"):
            acc("attr", None, par, f"{fn}(G)")
        else:
            acc("escape", None, par, f"passed to {norm(par.func)}()")
    elif isinstance(par, ast.keyword):
        acc("escape", None, parent(par) or par, "passed as keyword argument")
    elif isinstance(par, ast.UnaryOp) and isinstance(par.op, ast.Not):
        acc("truth", None, par, "not G")
    elif isinstance(par, (ast.If, ast.While, ast.IfExp)) and par.test is ref:
        acc("truth", None, ref, "if G")
    elif isinstance(par, ast.BoolOp):
        acc("truth", None, par, "G in boolean expression")
    elif isinstance(par, ast.BinOp):
        acc("algebra", None, par, f"G {type(par.op).__name__} ...")
    elif isinstance(ref, ast.Name) and isinstance(ref.ctx, ast.Store):
        if f is not None:
            acc("rebind", None, enclosing_stmt(ref), "global rebinding")
    elif isinstance(ref, ast.Attribute) and isinstance(ref.ctx, ast.Store):
        acc("rebind", None, enclosing_stmt(ref), "attribute rebinding")
    elif isinstance(par, ast.Return):
        acc("escape", None, par, "returned")
    elif isinstance(par, (ast.Assign, ast.AnnAssign)) and getattr(par, "value", None) is ref:
        acc("escape", None, par, "aliased by assignment")
    elif isinstance(par, ast.AugAssign) and par.target is ref:
        acc("rebind", None, par, "augmented assignment")
    elif isinstance(par, (ast.Tuple, ast.List, ast.Dict, ast.Set, ast.Starred)):
        acc("escape", None, par, "stored in a literal")
    elif isinstance(par, ast.withitem):
        acc("attr", None, par.context_expr, "used as context manager")
    else:
        acc("escape", None, par if par is not None else ref, f"other use ({type(par).__name__})")
    return out


def _alias_accesses(g: GlobalVar, m: Module, base: Access) -> List[Access]:
    """`x = G[k]` / `x = G.get(k)` / `x = G.setdefault(k, ..)`: later `x.add(e)` etc. are elem-* accesses."""
    out: List[Access] = []
    if base.kind not in ("read", "insert") or base.func is None:
        return out
    st = parent(base.node)
    if not (isinstance(st, (ast.Assign, ast.AnnAssign)) and getattr(st, "value", None) is base.node):
        return out
    tgts = [t for t, _ in assign_targets(st) if isinstance(t, ast.Name)]
    if len(tgts) != 1:
        return out
    alias = tgts[0].id
    if len(assignments(base.func, alias)) != 1:
        return out
    for n in body_walk(base.func):
        if isinstance(n, ast.Name) and n.id == alias and isinstance(n.ctx, ast.Load):
            p = parent(n)
            if isinstance(p, ast.Attribute) and p.value is n:
                pp = parent(p)
                if isinstance(pp, ast.Call) and pp.func is p:
                    kind, k = _method_access(g, p.attr, pp)
                    if kind in ("insert", "remove", "read", "whole"):
                        out.append(Access(g, "elem-" + kind, base.key, k, pp, m, base.func, f"alias {alias}.{p.attr}()"))
            elif isinstance(p, ast.UnaryOp) and isinstance(p.op, ast.Not):
                out.append(Access(g, "elem-whole", base.key, None, p, m, base.func, f"not {alias}"))
            elif isinstance(p, ast.Compare) and n in p.comparators and any(isinstance(o, (ast.In, ast.NotIn)) for o in p.ops):
                out.append(Access(g, "elem-read", base.key, p.left, p, m, base.func, f"x in {alias}"))
            elif isinstance(p, (ast.For,)) and p.iter is n:
                out.append(Access(g, "elem-whole", base.key, None, p, m, base.func, f"for _ in {alias}"))
            elif isinstance(p, ast.Call) and n in p.args and isinstance(p.func, ast.Name) and p.func.id in WHOLE_FUNCS:
                out.append(Access(g, "elem-whole", base.key, None, p, m, base.func, f"{p.func.id}({alias})"))
    return out


def accesses(proj: Project, gv: GlobalVar) -> List[Access]:
    out: List[Access] = []
    for m, ref in global_refs(proj, gv):
        if ref is getattr(gv.node, "target", None) or (isinstance(gv.node, ast.Assign) and ref in gv.node.targets):
            continue  # the defining assignment itself
        if enclosing_func(ref) is None and isinstance(ref, ast.Name) and isinstance(ref.ctx, ast.Store):
            continue
        accs = classify_ref(gv, m, ref)
        out.extend(accs)
        for a in accs:
            out.extend(_alias_accesses(gv, m, a))
        # whole-container alias: `local = G` (single definition of `local`): every later use of `local` in that function
        # and in the closures nested in it is a use of G
        st = parent(ref)
        fn = enclosing_func(ref)
        if fn is not None and isinstance(st, (ast.Assign, ast.AnnAssign)) and getattr(st, "value", None) is ref:
            tg = [t for t, _ in assign_targets(st) if isinstance(t, ast.Name)]
            if len(tg) == 1 and len(assignments(fn, tg[0].id)) == 1:
                alias = tg[0].id
                for n in ast.walk(fn):
                    if isinstance(n, ast.Name) and n.id == alias and isinstance(n.ctx, ast.Load) and n is not ref:
                        inner = enclosing_func(n)
                        if inner is not fn and inner is not None and (alias in params(inner) or assignments(inner, alias)):
                            continue  # shadowed in the nested function
                        for a in classify_ref(gv, m, n):
                            a.how = f"alias {alias}: {a.how}"
                            out.append(a)
    return out


# ---------------------------------------------------------------------------------------------
# key provenance (Appendix A4) and function summaries (Appendix A3)
# ---------------------------------------------------------------------------------------------

def keyspec(func: Optional[FuncNode], key: Optional[ast.AST]) -> Tuple[str, Any]:
    """Abstract a key expression relative to its function: ('param', i, name) | ('free', name) |
    ('fresh', name) | ('local', name) | ('bulk',) | ('expr', text)."""
    if key is None:
        return ("bulk",)
    if isinstance(key, ast.Name):
        if func is None:
            return ("expr", key.id)
        ps = params(func)
        if key.id in ps:
            return ("param", ps.index(key.id), key.id)
        a = assignments(func, key.id)
        if not a:
            return ("free", key.id)
        if len(a) == 1 and isinstance(a[0][1], ast.Call) and last_attr(a[0][1].func) == "gen_id":
            return ("fresh", key.id)
        return ("local", key.id)
    return ("expr", norm(key))


class Summaries:
    """inserts/removes per function, closed under in-package calls (fixpoint)."""

    def __init__(self, proj: Project, cg: CallGraph, registries: Dict[str, GlobalVar]):
        self.proj, self.cg, self.regs = proj, cg, registries
        self.acc: Dict[str, List[Access]] = {k: accesses(proj, g) for k, g in registries.items()}
        # direct effects: fkey -> set((op, gkey, keyspec))
        self.direct: Dict[str, Set[Tuple[str, str, Tuple]]] = {}
        self.sites: Dict[str, List[Tuple[str, str, Optional[ast.AST], ast.AST]]] = {}  # fkey -> [(op, gkey, keyexpr, node)]
        for gk, accs in self.acc.items():
            for a in accs:
                if a.func is None:
                    continue
                op = None
                key = a.key
                if a.kind in ("insert", "remove"):
                    op = a.kind
                elif a.kind in ("elem-insert", "elem-remove"):
                    op = a.kind[5:]
                    gk2 = gk + "[*]"
                    key = a.elem
                    fk = fkey(a.mod, a.func)
                    self.direct.setdefault(fk, set()).add((op, gk2, keyspec(a.func, key)))
                    self.sites.setdefault(fk, []).append((op, gk2, key, a.node))
                    continue
                if op:
                    fk = fkey(a.mod, a.func)
                    ks = keyspec(a.func, key)
                    if ks[0] in ("fresh", "local") and any(
                        isinstance(r, ast.Return) and isinstance(r.value, ast.Name) and r.value.id == ks[1]
                        for r in body_walk(a.func)
                    ):
                        ks = ("ret",)
                    self.direct.setdefault(fk, set()).add((op, gk, ks))
                    self.sites.setdefault(fk, []).append((op, gk, key, a.node))
        self.total: Dict[str, Set[Tuple[str, str, Tuple]]] = {k: set(v) for k, v in self.direct.items()}
        self._close()

    def _map_through_call(self, callee: FuncNode, call: ast.Call, spec: Tuple, caller: FuncNode, is_method: bool) -> Tuple:
        if spec[0] == "param":
            idx, name = spec[1], spec[2]
            off = 1 if is_method and params(callee)[:1] in (["self"], ["cls"]) else 0
            expr: Optional[ast.AST] = None
            pi = idx - off
            if 0 <= pi < len(call.args) and not any(isinstance(a, ast.Starred) for a in call.args[: pi + 1]):
                expr = call.args[pi]
            else:
                for k in call.keywords:
                    if k.arg == name:
                        expr = k.value
            if expr is None:
                return ("expr", "?")
            return keyspec(caller, expr)
        if spec[0] == "free":
            return keyspec(caller, ast.Name(id=spec[1], ctx=ast.Load()))
        if spec[0] in ("bulk", "hidden"):
            return spec
        if spec[0] == "ret":
            # the callee returns the key: it is the caller's variable bound to the call's value
            st = parent(call)
            if isinstance(st, (ast.Assign, ast.AnnAssign)) and getattr(st, "value", None) is call:
                tg = [t for t, _ in assign_targets(st)]
                if len(tg) == 1 and isinstance(tg[0], ast.Name):
                    return keyspec(caller, tg[0])
            return ("hidden",)
        return ("hidden",)

    def _close(self) -> None:
        changed = True
        rounds = 0
        while changed and rounds < 8:
            changed = False
            rounds += 1
            for fk, (m, f) in self.cg.funcs.items():
                for tk, site, kind in self.cg.edges.get(fk, []):
                    if kind != "call" or tk not in self.total or not isinstance(site, ast.Call):
                        continue
                    callee = self.cg.funcs[tk][1]
                    is_method = isinstance(site.func, ast.Attribute)
                    for op, gk, spec in list(self.total[tk]):
                        ms = self._map_through_call(callee, site, spec, f, is_method)
                        item = (op, gk, ms)
                        if item not in self.total.setdefault(fk, set()):
                            self.total[fk].add(item)
                            changed = True

    def call_effects(self, m: Module, caller: FuncNode, call: ast.Call) -> List[Tuple[str, str, Tuple]]:
        """Effects of a call site, with keys expressed in the caller's terms."""
        tgt = self.cg.resolve_callee(m, call, call.func)
        if tgt is None:
            return []
        tk = self.cg.target_key(tgt)
        if not tk or tk not in self.total:
            return []
        callee = self.cg.funcs[tk][1]
        is_method = isinstance(call.func, ast.Attribute)
        return [(op, gk, self._map_through_call(callee, call, spec, caller, is_method)) for op, gk, spec in self.total[tk]]
