"""Loading of the analysed package: modules, parent links, qualified names, imports, constants."""
from __future__ import annotations

import ast
import os
import re
import subprocess
from typing import Any, Dict, Iterable, Iterator, List, Optional, Tuple, Union

PKG_REL = "src/django_components"
PKG_NAME = "django_components"

FuncNode = Union[ast.FunctionDef, ast.AsyncFunctionDef]


class AnalysisError(Exception):
    """The analysis cannot decide (vanished anchor, unknown code shape, floor not met) -> exit 2."""


class Unfoldable(Exception):
    pass


def norm(node: Union[ast.AST, str]) -> str:
    """Whitespace/quote-normalised source of a node: the key used instead of line numbers."""
    s = node if isinstance(node, str) else ast.unparse(node)
    return re.sub(r"\s+", " ", s).strip()


def short(node: Union[ast.AST, str], n: int = 110) -> str:
    s = norm(node)
    return s if len(s) <= n else s[: n - 3] + "..."


def walk_no_nested(node: ast.AST, enter_root: bool = True) -> Iterator[ast.AST]:
    """Yield `node` and its descendants without entering nested function/class/lambda bodies.

    Nested defs are yielded themselves (as opaque nodes). `enter_root=False` treats the root the same way.
    """
    todo = [node]
    while todo:
        n = todo.pop()
        yield n
        if isinstance(n, (ast.FunctionDef, ast.AsyncFunctionDef, ast.ClassDef, ast.Lambda)) and not (
            n is node and enter_root
        ):
            continue
        todo.extend(reversed(list(ast.iter_child_nodes(n))))


def body_walk(func: FuncNode) -> Iterator[ast.AST]:
    """All nodes of a function's own body (nested defs yielded as opaque nodes, not entered)."""
    for st in func.body:
        yield from walk_no_nested(st, enter_root=False)


def _const_rank(e: ast.AST) -> int:
    if isinstance(e, ast.Constant):
        return 3
    d = e
    while isinstance(d, ast.Attribute):
        d = d.value
    if isinstance(d, ast.Name) and (d.id.isupper() or (isinstance(e, ast.Attribute) and d.id[:1].isupper() and e.attr.isupper())):
        return 2  # ALL_CAPS constant or Enum member
    return 1


def _canonicalise(tree: ast.AST) -> None:
    """Normal form for behaviour-preserving spellings, applied to every module before any rule sees it, so that both
    spellings give the rules the same tree (line numbers of moved statements are kept; they are for humans):
      `if C: ...exit else: REST`   ->  `if C: ...exit` followed by REST   (the branch ends in return/raise/continue/break)
      `if C: REST else: ...exit`   ->  `if not C: ...exit` followed by REST
      `if not C: A else: B`        ->  `if C: B else: A`   (a real else branch only, never an elif chain)
      `not not C` as an if/while test -> `C`
      `not a in b` / `not a is b` / `not a == b` (and the other single comparisons)  ->  the negated operator
      `CONST == x` / `CONST != x`  ->  `x == CONST`        (the more constant operand goes to the right)
      `x = x + e` / `x = x - e`    ->  `x += e` / `x -= e`  (plain names)
      `t = E; return t`            ->  `return E`          (t stored once, loaded once, in adjacent statements)"""
    _NEG = {ast.In: ast.NotIn, ast.NotIn: ast.In, ast.Is: ast.IsNot, ast.IsNot: ast.Is, ast.Eq: ast.NotEq, ast.NotEq: ast.Eq,
            ast.Lt: ast.GtE, ast.GtE: ast.Lt, ast.Gt: ast.LtE, ast.LtE: ast.Gt}
    _EXIT = (ast.Return, ast.Raise, ast.Continue, ast.Break)

    # 1. flatten `else` next to a branch that always leaves (innermost first, so that chains unfold completely)
    def _flatten(blk: list, elif_arm: bool = False) -> None:
        i = 0
        while i < len(blk):
            st = blk[i]
            for fld in ("body", "orelse", "finalbody"):
                sub = getattr(st, fld, None)
                if isinstance(sub, list) and sub and isinstance(sub[0], ast.AST):
                    _flatten(sub, elif_arm=(fld == "orelse" and isinstance(st, ast.If) and len(sub) == 1 and isinstance(sub[0], ast.If)))
            for h in getattr(st, "handlers", []) or []:
                _flatten(h.body)
            if isinstance(st, ast.If) and st.orelse and st.body and isinstance(st.body[-1], _EXIT) and not elif_arm:
                # (also when the else part is an elif chain: `if A: exit elif B: ..` == `if A: exit` + `if B: ..`)
                rest, st.orelse = st.orelse, []
                blk[i + 1:i + 1] = rest
            elif isinstance(st, ast.If) and st.orelse and not (len(st.orelse) == 1 and isinstance(st.orelse[0], ast.If)) and st.body:
                if isinstance(st.orelse[-1], _EXIT) and not elif_arm:
                    rest = st.body
                    st.body, st.orelse = st.orelse, []
                    st.test = ast.copy_location(ast.UnaryOp(op=ast.Not(), operand=st.test), st.test)
                    blk[i + 1:i + 1] = rest
            i += 1

    for n in ast.walk(tree):
        if isinstance(n, (ast.FunctionDef, ast.AsyncFunctionDef, ast.Module)):
            _flatten(n.body)
    # 2. swap `if not C: A else: B`; double negation in tests
    for n in ast.walk(tree):
        if isinstance(n, (ast.If, ast.While)):
            while isinstance(n.test, ast.UnaryOp) and isinstance(n.test.op, ast.Not) and isinstance(n.test.operand, ast.UnaryOp) and isinstance(n.test.operand.op, ast.Not):
                n.test = n.test.operand.operand
        if isinstance(n, ast.If) and n.orelse and not (len(n.orelse) == 1 and isinstance(n.orelse[0], ast.If)) \
                and isinstance(n.test, ast.UnaryOp) and isinstance(n.test.op, ast.Not):
            n.test = n.test.operand
            n.body, n.orelse = n.orelse, n.body
    # 3. negated single comparisons; constant to the right; augmented assignment
    for par in ast.walk(tree):
        for fld, val in list(ast.iter_fields(par)):
            cands = val if isinstance(val, list) else [val]
            for i, v in enumerate(cands):
                if isinstance(v, ast.UnaryOp) and isinstance(v.op, ast.Not) and isinstance(v.operand, ast.Compare) and len(v.operand.ops) == 1 and type(v.operand.ops[0]) in _NEG:
                    c = v.operand
                    c.ops = [_NEG[type(c.ops[0])]()]
                    if isinstance(val, list):
                        val[i] = c
                    else:
                        setattr(par, fld, c)
        for fld in ("body", "orelse", "finalbody"):
            blk = getattr(par, fld, None)
            if not isinstance(blk, list):
                continue
            for i, st in enumerate(blk):
                if isinstance(st, ast.Assign) and len(st.targets) == 1 and isinstance(st.targets[0], ast.Name) and isinstance(st.value, ast.BinOp) and isinstance(st.value.op, (ast.Add, ast.Sub)) \
                        and isinstance(st.value.left, ast.Name) and st.value.left.id == st.targets[0].id:
                    blk[i] = ast.copy_location(ast.AugAssign(target=st.targets[0], op=st.value.op, value=st.value.right), st)
    for n in ast.walk(tree):
        if isinstance(n, ast.Compare) and len(n.ops) == 1 and isinstance(n.ops[0], (ast.Eq, ast.NotEq)) and _const_rank(n.left) > _const_rank(n.comparators[0]):
            n.left, n.comparators = n.comparators[0], [n.left]
    # 4. single-use temporaries: `t = E; return t` -> `return E`; and `t = PURE; <simple statement using t once>` -> inlined
    _PURE = (ast.Name, ast.Constant, ast.Attribute, ast.BinOp, ast.UnaryOp, ast.Compare, ast.BoolOp, ast.JoinedStr, ast.FormattedValue, ast.Tuple,
             ast.Load, ast.operator, ast.unaryop, ast.cmpop, ast.boolop, ast.expr_context)

    def _pure(e: ast.AST) -> bool:
        return all(isinstance(x, _PURE) for x in ast.walk(e))

    for fn in [x for x in ast.walk(tree) if isinstance(x, (ast.FunctionDef, ast.AsyncFunctionDef))]:
        stores: Dict[str, int] = {}
        loads: Dict[str, int] = {}
        for x in ast.walk(fn):
            if isinstance(x, ast.Name):
                d = stores if isinstance(x.ctx, (ast.Store, ast.Del)) else loads
                d[x.id] = d.get(x.id, 0) + 1
            elif isinstance(x, (ast.Global, ast.Nonlocal)):
                for nm in x.names:
                    stores[nm] = stores.get(nm, 0) + 2
            elif isinstance(x, ast.arg):
                stores[x.arg] = stores.get(x.arg, 0) + 1
        for par in ast.walk(fn):
            for fld in ("body", "orelse", "finalbody"):
                blk = getattr(par, fld, None)
                if not isinstance(blk, list):
                    continue
                i = 1
                while i < len(blk):
                    a, r = blk[i - 1], blk[i]
                    if isinstance(a, ast.Assign) and len(a.targets) == 1 and isinstance(a.targets[0], ast.Name) and stores.get(a.targets[0].id) == 1 and loads.get(a.targets[0].id) == 1:
                        t = a.targets[0].id
                        if isinstance(r, ast.Return) and isinstance(r.value, ast.Name) and r.value.id == t:
                            r.value = a.value
                            del blk[i - 1]
                            continue
                        if _pure(a.value) and isinstance(r, (ast.Assign, ast.Expr, ast.Return, ast.AugAssign)) and not t.isupper():
                            uses = [(p_, f_, k_) for p_ in ast.walk(r) for f_, v_ in ast.iter_fields(p_) for k_, c_ in (enumerate(v_) if isinstance(v_, list) else [(None, v_)])
                                    if isinstance(c_, ast.Name) and c_.id == t and isinstance(c_.ctx, ast.Load)]
                            # the value must not depend on something the using statement assigns first (it does not: a precedes r)
                            if len(uses) == 1:
                                p_, f_, k_ = uses[0]
                                if k_ is None:
                                    setattr(p_, f_, a.value)
                                else:
                                    getattr(p_, f_)[k_] = a.value
                                del blk[i - 1]
                                continue
                    i += 1


class Module:
    def __init__(self, name: str, rel: str, text: str):
        self.name = name
        self.rel = rel
        self.text = text
        self.lines = text.splitlines()
        try:
            self.tree = ast.parse(text, filename=rel)
        except SyntaxError as e:  # pragma: no cover - a tree that does not compile is not analysable
            raise AnalysisError(f"{rel}: does not parse: {e}")
        _canonicalise(self.tree)
        self.defs: Dict[str, ast.AST] = {}
        self.imports: Dict[str, Tuple[str, Optional[str]]] = {}
        self.assigns: Dict[str, List[ast.stmt]] = {}
        self._index()

    # -- indexing -----------------------------------------------------------------------------
    def _index(self) -> None:
        self.tree.parent = None  # type: ignore[attr-defined]
        self.tree.qual = ""  # type: ignore[attr-defined]
        stack: List[Tuple[ast.AST, str]] = [(self.tree, "")]
        while stack:
            node, qual = stack.pop()
            for child in ast.iter_child_nodes(node):
                child.parent = node  # type: ignore[attr-defined]
                cq = qual
                if isinstance(child, (ast.FunctionDef, ast.AsyncFunctionDef, ast.ClassDef)):
                    cq = f"{qual}.{child.name}" if qual else child.name
                    # first definition wins for the index; later redefinitions get a suffix
                    key = cq
                    k = 2
                    while key in self.defs:
                        key = f"{cq}#{k}"
                        k += 1
                    self.defs[key] = child
                    child.qual = key  # type: ignore[attr-defined]
                stack.append((child, cq))
        pkg_parts = self.name.split(".")
        for node in ast.walk(self.tree):
            if isinstance(node, ast.Import):
                for a in node.names:
                    local = a.asname or a.name.split(".")[0]
                    self.imports.setdefault(local, (a.name if a.asname else a.name.split(".")[0], None))
            elif isinstance(node, ast.ImportFrom):
                base = node.module or ""
                if node.level:
                    anchor = pkg_parts[: len(pkg_parts) - node.level] if not self.rel.endswith("__init__.py") else pkg_parts[: len(pkg_parts) - node.level + 1]
                    base = ".".join(anchor + ([node.module] if node.module else []))
                for a in node.names:
                    self.imports.setdefault(a.asname or a.name, (base, a.name))
        def scan_block(block: List[ast.stmt]) -> None:
            for st in block:
                for tgt, _v in assign_targets(st):
                    if isinstance(tgt, ast.Name):
                        self.assigns.setdefault(tgt.id, []).append(st)
                if isinstance(st, (ast.If, ast.Try, ast.With)):
                    for field in ("body", "orelse", "finalbody"):
                        scan_block(getattr(st, field, []) or [])
                    for h in getattr(st, "handlers", []) or []:
                        scan_block(h.body)

        scan_block(self.tree.body)

    # -- queries ------------------------------------------------------------------------------
    def get(self, qual: str) -> ast.AST:
        if qual not in self.defs:
            raise AnalysisError(f"anchor vanished: {self.rel}:{qual}")
        return self.defs[qual]

    def func(self, qual: str) -> FuncNode:
        n = self.get(qual)
        if not isinstance(n, (ast.FunctionDef, ast.AsyncFunctionDef)):
            raise AnalysisError(f"anchor is not a function: {self.rel}:{qual}")
        return n

    def cls(self, qual: str) -> ast.ClassDef:
        n = self.get(qual)
        if not isinstance(n, ast.ClassDef):
            raise AnalysisError(f"anchor is not a class: {self.rel}:{qual}")
        return n

    def funcs(self) -> Iterator[Tuple[str, FuncNode]]:
        for q, n in self.defs.items():
            if isinstance(n, (ast.FunctionDef, ast.AsyncFunctionDef)):
                yield q, n

    def loc(self, node: Optional[ast.AST]) -> str:
        ln = getattr(node, "lineno", 0) if node is not None else 0
        return f"{self.rel}:{ln}"

    def global_value(self, name: str) -> Optional[ast.expr]:
        sts = self.assigns.get(name)
        if not sts:
            return None
        st = sts[-1]
        if isinstance(st, ast.Assign):
            return st.value
        if isinstance(st, ast.AnnAssign):
            return st.value
        return None


def assign_targets(st: ast.AST) -> List[Tuple[ast.expr, Optional[ast.expr]]]:
    """(target, value) pairs of an assignment-like statement (tuple targets are flattened, value kept whole)."""
    out: List[Tuple[ast.expr, Optional[ast.expr]]] = []

    def flat(t: ast.expr, v: Optional[ast.expr]) -> None:
        if isinstance(t, (ast.Tuple, ast.List)):
            for e in t.elts:
                flat(e, v)
        elif isinstance(t, ast.Starred):
            flat(t.value, v)
        else:
            out.append((t, v))

    if isinstance(st, ast.Assign):
        for t in st.targets:
            flat(t, st.value)
    elif isinstance(st, ast.AnnAssign):
        flat(st.target, st.value)
    elif isinstance(st, ast.AugAssign):
        flat(st.target, st.value)
    elif isinstance(st, (ast.For, ast.AsyncFor)):
        flat(st.target, st.iter)
    elif isinstance(st, (ast.With, ast.AsyncWith)):
        for it in st.items:
            if it.optional_vars is not None:
                flat(it.optional_vars, it.context_expr)
    elif isinstance(st, ast.NamedExpr):
        flat(st.target, st.value)
    return out


def parent(node: ast.AST) -> Optional[ast.AST]:
    return getattr(node, "parent", None)


def ancestors(node: ast.AST) -> Iterator[ast.AST]:
    p = parent(node)
    while p is not None:
        yield p
        p = parent(p)


def enclosing_func(node: ast.AST) -> Optional[FuncNode]:
    for a in ancestors(node):
        if isinstance(a, (ast.FunctionDef, ast.AsyncFunctionDef)):
            return a
    return None


def enclosing_stmt(node: ast.AST) -> ast.stmt:
    n: ast.AST = node
    while not isinstance(n, ast.stmt):
        p = parent(n)
        if p is None:
            raise AnalysisError("expression without statement")
        n = p
    return n


def qual_of(node: ast.AST) -> str:
    for a in [node, *ancestors(node)]:
        q = getattr(a, "qual", None)
        if q is not None and isinstance(a, (ast.FunctionDef, ast.AsyncFunctionDef, ast.ClassDef)):
            return q
    return "<module>"


def dotted(expr: ast.AST) -> Optional[str]:
    """`a.b.c` for Name/Attribute chains, else None."""
    parts: List[str] = []
    e = expr
    while isinstance(e, ast.Attribute):
        parts.append(e.attr)
        e = e.value
    if isinstance(e, ast.Name):
        parts.append(e.id)
        return ".".join(reversed(parts))
    return None


def call_name(call: ast.Call) -> Optional[str]:
    return dotted(call.func)


def last_attr(expr: ast.AST) -> Optional[str]:
    if isinstance(expr, ast.Attribute):
        return expr.attr
    if isinstance(expr, ast.Name):
        return expr.id
    return None


class Project:
    """All modules of the analysed package, from the working tree, a git revision, or an overlay."""

    def __init__(self, root: str, files: Dict[str, str], origin: str):
        self.root = root
        self.origin = origin
        self.modules: Dict[str, Module] = {}
        self.by_rel: Dict[str, Module] = {}
        for rel, text in sorted(files.items()):
            name = rel[len("src/") : -3].replace("/", ".")
            if name.endswith(".__init__"):
                name = name[: -len(".__init__")]
            m = Module(name, rel, text)
            self.modules[name] = m
            self.by_rel[rel] = m
        if len(self.modules) < 30:
            raise AnalysisError(f"only {len(self.modules)} modules found under {root}/{PKG_REL} (expected >= 30)")

    # -- constructors -------------------------------------------------------------------------
    @classmethod
    def read_files(cls, root: str) -> Dict[str, str]:
        files: Dict[str, str] = {}
        base = os.path.join(root, PKG_REL)
        if not os.path.isdir(base):
            raise AnalysisError(f"package directory missing: {base}")
        for dp, dns, fns in os.walk(base):
            dns[:] = [d for d in dns if d != "__pycache__"]
            for fn in fns:
                if fn.endswith(".py"):
                    p = os.path.join(dp, fn)
                    with open(p, encoding="utf-8") as f:
                        files[os.path.relpath(p, root)] = f.read()
        return files

    @classmethod
    def load(cls, root: Optional[str] = None, overlay: Optional[Dict[str, str]] = None) -> "Project":
        root = root or os.environ.get("DJC_REPO", "/repo")
        files = cls.read_files(root)
        if overlay:
            files.update(overlay)
        return cls(root, files, "worktree" + ("+overlay" if overlay else ""))

    @classmethod
    def from_git(cls, rev: str, root: Optional[str] = None) -> "Project":
        root = root or os.environ.get("DJC_REPO", "/repo")
        names = subprocess.run(
            ["git", "-C", root, "ls-tree", "-r", "--name-only", rev, PKG_REL], capture_output=True, text=True, check=True
        ).stdout.split()
        files = {}
        for n in names:
            if n.endswith(".py"):
                files[n] = subprocess.run(
                    ["git", "-C", root, "show", f"{rev}:{n}"], capture_output=True, text=True, check=True
                ).stdout
        return cls(root, files, f"git:{rev}")

    # -- lookup -------------------------------------------------------------------------------
    def mod(self, name: str) -> Module:
        """Module by dotted suffix (`perfutil.provide`) or full name."""
        full = name if name.startswith(PKG_NAME) else f"{PKG_NAME}.{name}" if name else PKG_NAME
        if full not in self.modules:
            raise AnalysisError(f"anchor vanished: module {full}")
        return self.modules[full]

    def func(self, mod: str, qual: str) -> Tuple[Module, FuncNode]:
        m = self.mod(mod)
        return m, m.func(qual)

    def try_func(self, mod: str, qual: str) -> Optional[Tuple[Module, FuncNode]]:
        try:
            return self.func(mod, qual)
        except AnalysisError:
            return None

    def all_funcs(self) -> Iterator[Tuple[Module, str, FuncNode]]:
        for m in self.modules.values():
            for q, f in m.funcs():
                yield m, q, f

    def resolve(self, mod: Module, name: str, _depth: int = 0) -> Optional[Tuple[str, Any, Any]]:
        """Resolve a (possibly dotted) name used at module scope of `mod`.

        Returns ("def", Module, node) for an in-package function/class, ("global", Module, name) for an
        in-package module-level variable, ("module", Module, None), ("external", "pkg.mod.attr", None), or None.
        """
        if _depth > 8:
            return None
        head, _, rest = name.partition(".")
        if head in mod.defs and not rest:
            return ("def", mod, mod.defs[head])
        if head in mod.defs and rest:
            q = f"{head}.{rest}"
            if q in mod.defs:
                return ("def", mod, mod.defs[q])
            return None
        if head in mod.imports:
            src, attr = mod.imports[head]
            if attr is None:
                target = src
                if target in self.modules:
                    m2 = self.modules[target]
                    return self.resolve(m2, rest, _depth + 1) if rest else ("module", m2, None)
                return ("external", f"{target}.{rest}" if rest else target, None)
            if src in self.modules:
                m2 = self.modules[src]
                sub = f"{src}.{attr}"
                if sub in self.modules:  # `from pkg import submodule`
                    m3 = self.modules[sub]
                    return self.resolve(m3, rest, _depth + 1) if rest else ("module", m3, None)
                return self.resolve(m2, f"{attr}.{rest}" if rest else attr, _depth + 1)
            if src.startswith(PKG_NAME):
                return None
            return ("external", f"{src}.{attr}" + (f".{rest}" if rest else ""), None)
        if head in mod.assigns and not rest:
            return ("global", mod, head)
        return None

    def resolve_expr(self, mod: Module, expr: ast.AST) -> Optional[Tuple[str, Any, Any]]:
        d = dotted(expr)
        return self.resolve(mod, d) if d else None

    # -- constant folding ---------------------------------------------------------------------
    def fold(self, mod: Module, expr: Optional[ast.AST], env: Optional[Dict[str, Any]] = None, _depth: int = 0) -> Any:
        """Evaluate a constant expression (str/bytes/int/tuple/list, f-strings, +, %, .format, re.escape)."""
        if expr is None or _depth > 12:
            raise Unfoldable("none/depth")
        if isinstance(expr, ast.Constant):
            return expr.value
        if isinstance(expr, ast.JoinedStr):
            out = ""
            for v in expr.values:
                if isinstance(v, ast.Constant):
                    out += str(v.value)
                elif isinstance(v, ast.FormattedValue) and v.conversion == -1 and v.format_spec is None:
                    out += str(self.fold(mod, v.value, env, _depth + 1))
                else:
                    raise Unfoldable(ast.dump(v))
            return out
        if isinstance(expr, (ast.Tuple, ast.List)):
            vals: List[Any] = []
            for e in expr.elts:
                if isinstance(e, ast.Starred):
                    vals.extend(self.fold(mod, e.value, env, _depth + 1))
                else:
                    vals.append(self.fold(mod, e, env, _depth + 1))
            return tuple(vals) if isinstance(expr, ast.Tuple) else vals
        if isinstance(expr, ast.Set):
            return {self.fold(mod, e, env, _depth + 1) for e in expr.elts}
        if isinstance(expr, ast.Dict):
            return {
                self.fold(mod, k, env, _depth + 1): self.fold(mod, v, env, _depth + 1)
                for k, v in zip(expr.keys, expr.values)
                if k is not None
            }
        if isinstance(expr, ast.BinOp) and isinstance(expr.op, (ast.Add, ast.Mod, ast.Mult)):
            left, right = self.fold(mod, expr.left, env, _depth + 1), self.fold(mod, expr.right, env, _depth + 1)
            try:
                if isinstance(expr.op, ast.Add):
                    return left + right
                if isinstance(expr.op, ast.Mult):
                    return left * right
                return left % right
            except Exception as e:
                raise Unfoldable(str(e))
        if isinstance(expr, ast.Name):
            if env and expr.id in env:
                return env[expr.id]
            r = self.resolve(mod, expr.id)
            if r and r[0] == "global":
                m2: Module = r[1]
                return self.fold(m2, m2.global_value(r[2]), None, _depth + 1)
            raise Unfoldable(expr.id)
        if isinstance(expr, ast.Attribute):
            r = self.resolve_expr(mod, expr)
            if r and r[0] == "global":
                m2 = r[1]
                return self.fold(m2, m2.global_value(r[2]), None, _depth + 1)
            raise Unfoldable(ast.dump(expr))
        if isinstance(expr, ast.Call):
            fn = expr.func
            if isinstance(fn, ast.Attribute) and fn.attr == "format":
                fmt = self.fold(mod, fn.value, env, _depth + 1)
                args = [self.fold(mod, a, env, _depth + 1) for a in expr.args]
                kwargs = {k.arg: self.fold(mod, k.value, env, _depth + 1) for k in expr.keywords if k.arg}
                try:
                    return fmt.format(*args, **kwargs)
                except Exception as e:
                    raise Unfoldable(str(e))
            if isinstance(fn, ast.Attribute) and fn.attr == "join" and len(expr.args) == 1:
                sep = self.fold(mod, fn.value, env, _depth + 1)
                return sep.join(self.fold(mod, expr.args[0], env, _depth + 1))
            if dotted(fn) == "re.escape" and len(expr.args) == 1:
                return re.escape(self.fold(mod, expr.args[0], env, _depth + 1))
            if isinstance(fn, ast.Attribute) and fn.attr in ("encode",) and not expr.args:
                return self.fold(mod, fn.value, env, _depth + 1).encode()
            if isinstance(fn, ast.Name) and fn.id in ("tuple", "list", "set", "frozenset") and len(expr.args) == 1:
                v = self.fold(mod, expr.args[0], env, _depth + 1)
                return {"tuple": tuple, "list": list, "set": set, "frozenset": frozenset}[fn.id](v)
        raise Unfoldable(ast.dump(expr)[:80])

    def try_fold(self, mod: Module, expr: Optional[ast.AST], env: Optional[Dict[str, Any]] = None) -> Tuple[bool, Any]:
        try:
            return True, self.fold(mod, expr, env)
        except Unfoldable:
            return False, None
