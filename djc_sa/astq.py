"""Small AST query helpers shared by the rule modules."""
from __future__ import annotations

import ast
from typing import Callable, Dict, Iterable, Iterator, List, Optional, Sequence, Set, Tuple, Union

from .source import (
    AnalysisError,
    FuncNode,
    Module,
    assign_targets,
    body_walk,
    call_name,
    dotted,
    enclosing_stmt,
    last_attr,
    norm,
    walk_no_nested,
)


def calls(node: Union[ast.AST, Iterable[ast.AST]], name: Optional[str] = None, nested: bool = False) -> List[ast.Call]:
    """Call nodes under `node` whose callee's last name component (or dotted name) equals `name`."""
    roots = [node] if isinstance(node, ast.AST) else list(node)
    out: List[ast.Call] = []
    for r in roots:
        it = ast.walk(r) if nested else walk_no_nested(r)
        for n in it:
            if isinstance(n, ast.Call):
                if name is None or last_attr(n.func) == name or dotted(n.func) == name:
                    out.append(n)
    return out


def kwarg(call: ast.Call, name: str) -> Optional[ast.expr]:
    for k in call.keywords:
        if k.arg == name:
            return k.value
    return None


def arg(call: ast.Call, index: int, name: Optional[str] = None) -> Optional[ast.expr]:
    """Positional argument `index`, or keyword `name`."""
    if index < len(call.args) and not any(isinstance(a, ast.Starred) for a in call.args[: index + 1]):
        return call.args[index]
    return kwarg(call, name) if name else None


def names_in(node: ast.AST) -> Set[str]:
    return {n.id for n in ast.walk(node) if isinstance(n, ast.Name)}


def loads_in(node: ast.AST) -> Set[str]:
    return {n.id for n in ast.walk(node) if isinstance(n, ast.Name) and isinstance(n.ctx, ast.Load)}


def params(func: FuncNode) -> List[str]:
    a = func.args
    out = [x.arg for x in a.posonlyargs + a.args]
    if a.vararg:
        out.append(a.vararg.arg)
    out += [x.arg for x in a.kwonlyargs]
    if a.kwarg:
        out.append(a.kwarg.arg)
    return out


def assignments(func: FuncNode, name: str, nested: bool = False) -> List[Tuple[ast.stmt, Optional[ast.expr]]]:
    """All statements in `func` that bind local `name` (flow-insensitive), with the bound value."""
    out: List[Tuple[ast.stmt, Optional[ast.expr]]] = []
    it = ast.walk(func) if nested else body_walk(func)
    for n in it:
        for tgt, val in assign_targets(n):
            if isinstance(tgt, ast.Name) and tgt.id == name:
                out.append((n, val))  # type: ignore[arg-type]
    return out


def single_def(func: FuncNode, name: str) -> Optional[ast.expr]:
    """Value of `name` if it has exactly one binding in the function body (and is not rebound), else None."""
    a = assignments(func, name)
    if len(a) == 1 and not isinstance(a[0][0], (ast.AugAssign, ast.For)):
        return a[0][1]
    return None


def stmts(func_or_block: Union[FuncNode, Sequence[ast.stmt]]) -> Iterator[ast.stmt]:
    """All statements (recursively, not entering nested defs) of a function or block."""
    body = func_or_block.body if isinstance(func_or_block, (ast.FunctionDef, ast.AsyncFunctionDef)) else func_or_block
    for st in body:
        for n in walk_no_nested(st, enter_root=False):
            if isinstance(n, ast.stmt):
                yield n


def is_name(e: Optional[ast.AST], name: str) -> bool:
    return isinstance(e, ast.Name) and e.id == name


def subscript_base_key(e: ast.AST) -> Optional[Tuple[ast.expr, ast.expr]]:
    if isinstance(e, ast.Subscript):
        return e.value, e.slice
    return None


def nested_funcs(func: FuncNode) -> List[FuncNode]:
    return [n for n in body_walk(func) if isinstance(n, (ast.FunctionDef, ast.AsyncFunctionDef))]


def decorators(func: FuncNode) -> List[str]:
    out = []
    for d in func.decorator_list:
        if isinstance(d, ast.Call):
            d = d.func
        n = dotted(d)
        if n:
            out.append(n)
    return out


def is_contextmanager(func: FuncNode) -> bool:
    return any(d.split(".")[-1] == "contextmanager" for d in decorators(func))


def yields(func: FuncNode) -> List[ast.AST]:
    return [n for n in body_walk(func) if isinstance(n, (ast.Yield, ast.YieldFrom))]


def raises_in(node: Union[ast.AST, Sequence[ast.stmt]]) -> List[ast.Raise]:
    roots = [node] if isinstance(node, ast.AST) else list(node)
    out = []
    for r in roots:
        out.extend(n for n in walk_no_nested(r) if isinstance(n, ast.Raise))
    return out


def exc_class_of_raise(r: ast.Raise) -> Optional[str]:
    """Name of the class raised (`raise X(...)` / `raise X`), None for bare re-raise, '?' if not a plain name."""
    if r.exc is None:
        return None
    e = r.exc
    if isinstance(e, ast.Call):
        e = e.func
    d = dotted(e)
    return d if d else "?"


def contains(node: ast.AST, pred: Callable[[ast.AST], bool]) -> bool:
    return any(pred(n) for n in ast.walk(node))


def str_consts(node: ast.AST) -> List[str]:
    return [n.value for n in ast.walk(node) if isinstance(n, ast.Constant) and isinstance(n.value, str)]


def expect(cond: bool, msg: str) -> None:
    """Shape expectation of the analyser: failing it means 'unknown code shape' (exit 2), not a violation."""
    if not cond:
        raise AnalysisError("unknown shape: " + msg)


def local_from(func: FuncNode, pred: Callable[[ast.AST], bool], nested: bool = False) -> Optional[str]:
    """Name of the (first) local variable one of whose assigned values satisfies `pred` (rename-proof anchors)."""
    it = ast.walk(func) if nested else body_walk(func)
    for n in it:
        for tgt, val in assign_targets(n):
            if isinstance(tgt, ast.Name) and val is not None and not isinstance(n, (ast.For, ast.AsyncFor, ast.With)):
                try:
                    if pred(val):
                        return tgt.id
                except Exception:
                    continue
    return None


def local_from_text(func: FuncNode, fragment: str, nested: bool = False) -> Optional[str]:
    return local_from(func, lambda v: fragment in norm(v), nested)
