"""Acquire / release-attempt pairing on exceptional exits, with caller lifting (DESIGN.md C06-S1, Appendix A3).

Decides: after an insertion of key K into per-render registry G, every statement that can raise is followed, on
its exceptional continuation, by a *release attempt* for (G, K) before the exception leaves the library function --
in the same function (handler / finally / with-exit of an in-package context manager) or in every in-package caller
(the key is followed through the argument binding). A release attempt is a removal statement or a call to a function
whose summary may remove (G, K); whether the attempt's own internal guard is true is NOT decided here.
"""
from __future__ import annotations

import ast
from typing import Dict, Iterable, List, Optional, Set, Tuple

from .astq import is_contextmanager, params, yields
from .callgraph import CallGraph, fkey
from .cfg import CFG, Node
from .source import (
    FuncNode,
    Module,
    Project,
    ancestors,
    body_walk,
    dotted,
    enclosing_func,
    last_attr,
    norm,
    parent,
    walk_no_nested,
)
from .state import Summaries, keyspec

# calls that cannot raise for the purposes of leak windows (one line of reason each)
TOTAL_FUNCS = {
    "isinstance": "builtin predicate", "len": "builtin on library-owned containers", "cast": "typing no-op",
    "bool": "builtin", "hasattr": "builtin predicate", "callable": "builtin predicate", "id": "builtin",
    "set": "constructor", "dict": "constructor", "list": "constructor of library-owned iterable", "tuple": "constructor",
    "deque": "constructor", "frozenset": "constructor", "type": "builtin",
    "trace_component_msg": "logging only", "trace_node_msg": "logging only",
    "gen_id": "random id generator", "mark_safe": "wraps a str", "SafeString": "wraps a str",
    "reversed": "builtin on a list", "Context": "Django Context constructor", "BlockContext": "Django constructor",
}
TOTAL_METHODS = {
    "get", "setdefault", "add", "append", "appendleft", "discard", "copy", "keys", "values", "items", "update",
    "clear", "startswith", "endswith", "extend", "extendleft", "popleft_or_none", "debug", "info", "log", "warning",
}


class CfgCache:
    def __init__(self) -> None:
        self._c: Dict[int, CFG] = {}

    def get(self, f: FuncNode) -> CFG:
        if id(f) not in self._c:
            self._c[id(f)] = CFG(f)
        return self._c[id(f)]


class Pairing:
    def __init__(self, proj: Project, cg: CallGraph, summ: Summaries):
        self.proj, self.cg, self.summ = proj, cg, summ
        self.cfgs = CfgCache()
        self._total_cls: Dict[str, bool] = {}
        self._cm: Dict[str, Dict[str, List[Tuple[str, str, Tuple]]]] = {}
        self._total_fn: Dict[str, bool] = {}
        self._total_stack: List[str] = []

    # -- raise strength -----------------------------------------------------------------------
    def _ctor_is_total(self, m: Module, call: ast.Call) -> bool:
        r = self.proj.resolve_expr(m, call.func)
        if not (r and r[0] == "def" and isinstance(r[2], ast.ClassDef)):
            return False
        k = f"{r[1].name}:{r[2].name}"
        if k not in self._total_cls:
            self._total_cls[k] = not any(self.cg.find_method(r[1], r[2], n) for n in ("__init__", "__post_init__", "__new__"))
        return self._total_cls[k]

    def strong_raiser(self, m: Module, node: Node) -> bool:
        """Can this CFG node raise at a *user-influenced* point (unknown / user / non-total call, raise, yield,
        subscript load)?"""
        if node.kind in ("handler", "dispatch", "finally", "join", "entry", "exit", "exc_exit", "def"):
            return False
        if node.kind == "raise":
            return True
        if node.kind in ("with_enter", "with_exit"):
            a = node.ast
            if isinstance(a, ast.Call):
                tgt = self.cg.resolve_callee(m, a, a.func)
                if tgt is not None and isinstance(tgt[1], (ast.FunctionDef, ast.AsyncFunctionDef)) and is_contextmanager(tgt[1]):
                    # entering / leaving an in-package generator context manager: its own statements are analysed
                    # where they are written; what matters here is whether the *arguments* can raise
                    return any(self._expr_raises(m, x) for x in list(a.args) + [k.value for k in a.keywords]) if node.kind == "with_enter" else False
                if isinstance(a.func, ast.Attribute) and a.func.attr in ("update", "push", "bind_template"):
                    return False  # django Context.update()/push(): ContextDict push/pop
            return node.kind == "with_enter"
        a = node.ast
        if a is None:
            return False
        if node.kind == "for_iter":
            return False  # iteration over library-owned containers
        return self._expr_raises(m, a)

    def _expr_raises(self, m: Module, a: ast.AST) -> bool:
        for n in walk_no_nested(a, enter_root=False):
            if isinstance(n, (ast.Raise, ast.Yield, ast.YieldFrom, ast.Await, ast.Assert)):
                return True
            if isinstance(n, ast.Call):
                nm = last_attr(n.func)
                if isinstance(n.func, ast.Attribute) and nm in ("join", "format") and isinstance(n.func.value, ast.Constant):
                    continue  # "".join(list of str built by the library)
                if isinstance(n.func, ast.Name) and nm in TOTAL_FUNCS:
                    continue
                if isinstance(n.func, ast.Attribute) and nm in TOTAL_METHODS:
                    continue
                if isinstance(n.func, ast.Attribute) and nm == "pop" and len(n.args) >= 2:
                    continue
                if isinstance(n.func, ast.Name) and nm in ("getattr",) and len(n.args) >= 3:
                    continue
                if self._ctor_is_total(m, n):
                    continue
                if self._callee_is_total(m, n):
                    continue
                return True
        return False

    def _callee_is_total(self, m: Module, call: ast.Call) -> bool:
        """In-package callee whose body (transitively, depth-bounded) contains no raiser."""
        tgt = self.cg.resolve_callee(m, call, call.func)
        if tgt is None or not isinstance(tgt[1], (ast.FunctionDef, ast.AsyncFunctionDef)):
            return False
        k = fkey(tgt[0], tgt[1])
        if k in self._total_fn:
            return self._total_fn[k]
        self._total_fn[k] = False  # cycles / recursion: not total
        if len(self._total_stack) > 3 or is_contextmanager(tgt[1]):
            return False
        self._total_stack.append(k)
        try:
            ok = True
            for st in tgt[1].body:
                for x in walk_no_nested(st, enter_root=False):
                    if isinstance(x, ast.stmt) and not isinstance(x, (ast.FunctionDef, ast.AsyncFunctionDef, ast.ClassDef)):
                        if isinstance(x, (ast.Raise, ast.Assert)):
                            ok = False
                if self._expr_raises(tgt[0], st) if not isinstance(st, (ast.FunctionDef, ast.AsyncFunctionDef, ast.ClassDef)) else False:
                    ok = False
                if not ok:
                    break
        finally:
            self._total_stack.pop()
        self._total_fn[k] = ok
        return ok

    # -- effects per CFG node -----------------------------------------------------------------
    def cm_summary(self, m: Module, g: FuncNode) -> Dict[str, List[Tuple[str, str, Tuple]]]:
        """Effects of an in-package @contextmanager generator: before the yield / on exception at the yield /
        on normal resumption. May-semantics (release attempts)."""
        k = fkey(m, g)
        if k in self._cm:
            return self._cm[k]
        res: Dict[str, List[Tuple[str, str, Tuple]]] = {"enter": [], "exc": [], "normal": []}
        self._cm[k] = res
        cfg = self.cfgs.get(g)
        ynodes = [n for n in cfg.nodes if n.ast is not None and n.kind in ("stmt", "return") and any(isinstance(x, (ast.Yield, ast.YieldFrom)) for x in walk_no_nested(n.ast, enter_root=False))]
        # `with inner_cm(): yield` -> the yield sits inside with; nested CM effects are included through node effects
        eff = self.node_effects(m, g)
        if not ynodes:
            return res
        before: Set[Node] = set()
        for y in ynodes:
            # nodes from which y is reachable
            rev = {y}
            todo = [y]
            while todo:
                n = todo.pop()
                for p, lab in n.pred:
                    if p not in rev:
                        rev.add(p)
                        todo.append(p)
            before |= rev - {y}
        exc_nodes = cfg.reachable_from([s for y in ynodes for s, lab in y.succ if lab == "x"])
        norm_nodes = cfg.reachable_from([s for y in ynodes for s, lab in y.succ if lab != "x"])
        for n in cfg.nodes:
            for e in eff.get(n.id, []):
                if n in before:
                    res["enter"].append(e)
                if n in exc_nodes:
                    res["exc"].append(e)
                if n in norm_nodes:
                    res["normal"].append(e)
        return res

    def node_effects(self, m: Module, f: FuncNode) -> Dict[int, List[Tuple[str, str, Tuple]]]:
        """(op, registry, keyspec in f's terms) per CFG node id of f."""
        cfg = self.cfgs.get(f)
        out: Dict[int, List[Tuple[str, str, Tuple]]] = {}
        fk = fkey(m, f)
        direct_sites = self.summ.sites.get(fk, [])
        for n in cfg.nodes:
            if n.ast is None or n.kind in ("handler", "def"):
                continue
            effs: List[Tuple[str, str, Tuple]] = []
            if n.kind in ("with_enter", "with_exit"):
                a = n.ast
                if isinstance(a, ast.Call):
                    tgt = self.cg.resolve_callee(m, a, a.func)
                    if tgt is not None and isinstance(tgt[1], (ast.FunctionDef, ast.AsyncFunctionDef)) and is_contextmanager(tgt[1]):
                        cms = self.cm_summary(tgt[0], tgt[1])
                        which = "enter" if n.kind == "with_enter" else ("exc" if n.meta.get("mode") == "exc" else "normal")
                        is_method = isinstance(a.func, ast.Attribute)
                        for op, gk, spec in cms[which]:
                            effs.append((op, gk, self.summ._map_through_call(tgt[1], a, spec, f, is_method)))
                        if n.kind == "with_exit" and n.meta.get("mode") in ("return", "break", "continue"):
                            for op, gk, spec in cms["normal"]:
                                effs.append((op, gk, self.summ._map_through_call(tgt[1], a, spec, f, is_method)))
                if effs:
                    out[n.id] = effs
                continue
            inside = set(id(x) for x in walk_no_nested(n.ast, enter_root=False))
            for op, gk, keyexpr, site in direct_sites:
                if id(site) in inside:
                    effs.append((op, gk, keyspec(f, keyexpr)))
            for c in walk_no_nested(n.ast, enter_root=False):
                if isinstance(c, ast.Call):
                    effs.extend(self.summ.call_effects(m, f, c))
            if effs:
                out[n.id] = effs
        return out

    # -- the check ----------------------------------------------------------------------------
    @staticmethod
    def key_matches(acq: Tuple, rel: Tuple, f: FuncNode, rel_node_ast: Optional[ast.AST]) -> bool:
        if rel[0] == "bulk":
            return True
        if rel[0] == "hidden" or acq[0] == "hidden":
            return False
        if acq[0] == "bulk":
            # bulk insertion (update(d)) is only matched by bulk / loop removal
            return rel[0] == "local" and _is_loop_var(f, rel[1])
        if rel[0] in ("param", "fresh", "local", "free") and acq[0] in ("param", "fresh", "local", "free"):
            if rel[-1] == acq[-1]:
                return True
        if rel[0] == "local" and _is_loop_var(f, rel[1]):
            return True  # `for k in <collection>: G.pop(k)` -- membership of the key is a separate obligation
        if rel[0] == "expr" and acq[0] == "expr":
            return rel[1] == acq[1]
        return False

    def unprotected(self, m: Module, f: FuncNode, start: Iterable[Node], gk: str, key: Tuple, from_exception: bool, depth: int = 0, trail: Optional[List[str]] = None) -> List[Dict]:
        """Raisers after `start` whose exception can leave the library without a release attempt for (gk, key).

        `from_exception`: start nodes are exceptional successors (the exception is already in flight)."""
        cfg = self.cfgs.get(f)
        eff = self.node_effects(m, f)
        trail = (trail or []) + [fkey(m, f)]
        direct_ids = {id(site) for op, g, _k, site in self.summ.sites.get(fkey(m, f), []) if op == "remove" and g == gk}
        release: Set[Node] = set()
        release_call: Set[Node] = set()  # release happens inside a callee: an exception out of that call may precede it
        for n in cfg.nodes:
            effs = eff.get(n.id, [])
            hit = any(op == "remove" and g == gk and self.key_matches(key, spec, f, n.ast) for op, g, spec in effs)
            if not hit and key[0] in ("param", "fresh", "local", "free") and n.ast is not None:
                # callee removes from G under a key that is not expressible here, and receives our key as an argument
                if any(op == "remove" and g == gk and spec[0] == "hidden" for op, g, spec in effs):
                    for c in walk_no_nested(n.ast, enter_root=False):
                        if isinstance(c, ast.Call) and any(isinstance(a, ast.Name) and a.id == key[-1] for a in list(c.args) + [k.value for k in c.keywords]):
                            if any(op == "remove" and g == gk for op, g, _s in self.summ.call_effects(m, f, c)):
                                hit = True
            if hit:
                release.add(n)
                # `for k in <collection>: G.pop(k)`: the loop as a whole is the release attempt (an empty
                # collection means nothing was registered), so the loop header counts as well
                for op, g, spec in effs:
                    if op == "remove" and g == gk and spec[0] == "local" and _is_loop_var(f, spec[1]) and n.ast is not None:
                        for a in ancestors(n.ast):
                            if isinstance(a, (ast.For, ast.AsyncFor)) and any(isinstance(t, ast.Name) and t.id == spec[1] for t in ast.walk(a.target)):
                                release.update(cfg.nodes_of(a.target))
                if n.ast is not None and n.kind not in ("with_exit",) and not any(id(x) in direct_ids for x in walk_no_nested(n.ast, enter_root=False)):
                    release_call.add(n)
        in_cleanup: Set[int] = set()  # nodes inside except-handler / finally bodies: cleanup code is trusted not to fail
        for n in cfg.nodes:
            if n.ast is not None and any(isinstance(a, ast.ExceptHandler) or (isinstance(a, ast.Try) and _in_final(a, n.ast)) for a in ancestors(n.ast)):
                in_cleanup.add(n.id)
        todo: List[Tuple[Node, Optional[Node]]] = [(s, None) for s in start]
        seen: Set[Tuple[int, int]] = set()
        reached_exc: List[Optional[Node]] = []
        while todo:
            n, cause = todo.pop()
            k2 = (n.id, cause.id if cause is not None else -1)
            if k2 in seen:
                continue
            seen.add(k2)
            if n in release:
                if n in release_call and n.id not in in_cleanup and self.strong_raiser(m, n):
                    for s, lab in n.succ:
                        if lab == "x":
                            todo.append((s, n))
                continue
            if n is cfg.exc_exit:
                reached_exc.append(cause)
                continue
            if n is cfg.exit:
                continue
            cleanup = n.id in in_cleanup
            strong = self.strong_raiser(m, n) and (not cleanup or n.kind == "raise")
            for s, lab in n.succ:
                if lab == "p":
                    todo.append((s, cause))
                elif lab == "x":
                    if strong:
                        todo.append((s, cause if (cleanup and cause is not None) else n))
                else:
                    todo.append((s, cause))
        if not reached_exc:
            return []
        causes = [c for c in reached_exc if c is not None]
        # exception leaves f unreleased: can every in-package caller release?
        fk = fkey(m, f)
        callers = [e for e in self.cg.callers(fk) if isinstance(e[1], ast.Call)]
        liftable = key[0] in ("param", "bulk") and callers and depth < 3
        if liftable:
            problems: List[Dict] = []
            for ck, site, _kind in callers:
                cm_, cf = self.cg.funcs[ck]
                ckey = self.summ._map_through_call(f, site, key, cf, isinstance(site.func, ast.Attribute))  # type: ignore[arg-type]
                ccfg = self.cfgs.get(cf)
                cnodes = ccfg.node_containing(site)  # type: ignore[arg-type]
                starts = [s for cn in cnodes for s, lab in cn.succ if lab == "x"]
                if not starts:
                    continue
                sub = self.unprotected(cm_, cf, starts, gk, ckey, True, depth + 1, trail)
                problems.extend(sub)
            if not problems:
                return []
            return problems
        out = []
        for c in causes[:6] or [None]:
            out.append({
                "function": fk,
                "raiser": norm(c.ast)[:100] if c is not None and c.ast is not None else "(exception from callee)",
                "line": c.lineno if c is not None else 0,
                "module": m,
                "trail": trail,
            })
        return out


def _is_loop_var(f: FuncNode, name: str) -> bool:
    for n in body_walk(f):
        if isinstance(n, (ast.For, ast.AsyncFor)):
            if any(isinstance(t, ast.Name) and t.id == name for t in ast.walk(n.target)):
                return True
    return False


def _in_final(t: ast.Try, node: ast.AST) -> bool:
    for st in t.finalbody:
        if node is st or any(node is x for x in ast.walk(st)):
            return True
    return False
