"""Call graph over resolved in-package callees (own resolver: imports, aliases, self./cls. through MRO,
nested closures, references to functions used as callbacks)."""
from __future__ import annotations

import ast
from typing import Dict, Iterable, List, Optional, Set, Tuple

from .source import FuncNode, Module, Project, ancestors, body_walk, dotted, enclosing_func, qual_of

# method names that are far more likely to be a builtin container / stdlib / Django call than an in-package method
_GENERIC = {
    "get", "pop", "add", "remove", "update", "append", "extend", "insert", "clear", "copy", "keys", "values", "items",
    "join", "split", "strip", "format", "encode", "decode", "startswith", "endswith", "replace", "lower", "upper",
    "render", "parse", "resolve", "set", "push", "new", "flatten", "match", "search", "sub", "finditer", "group",
    "start", "end", "setdefault", "discard", "index", "count", "send", "find", "list", "compile", "register", "unregister",
    "serialize", "all", "has", "tokenize", "__init__", "popleft", "extendleft", "lstrip", "rstrip", "read", "write",
}


def fkey(mod: Module, func: ast.AST) -> str:
    return f"{mod.name}:{qual_of(func)}"


class CallGraph:
    def __init__(self, proj: Project):
        self.proj = proj
        self.funcs: Dict[str, Tuple[Module, FuncNode]] = {}
        self.edges: Dict[str, List[Tuple[str, Optional[ast.AST], str]]] = {}
        self.rev: Dict[str, List[Tuple[str, Optional[ast.AST], str]]] = {}
        self.unresolved: Dict[str, List[ast.Call]] = {}
        self.n_calls = 0
        self.n_resolved = 0
        self._methods_by_name: Dict[str, List[Tuple[Module, FuncNode]]] = {}
        for m, q, f in proj.all_funcs():
            self.funcs[f"{m.name}:{q}"] = (m, f)
            if isinstance(getattr(f, "parent", None), ast.ClassDef):
                self._methods_by_name.setdefault(f.name, []).append((m, f))
        for k, (m, f) in list(self.funcs.items()):
            self._scan(k, m, f)

    # -- class helpers ------------------------------------------------------------------------
    def class_bases(self, mod: Module, cls: ast.ClassDef) -> List[Tuple[Module, ast.ClassDef]]:
        out = []
        for b in cls.bases:
            if isinstance(b, ast.Subscript):
                b = b.value
            r = self.proj.resolve_expr(mod, b)
            if r and r[0] == "def" and isinstance(r[2], ast.ClassDef):
                out.append((r[1], r[2]))
        return out

    def find_method(self, mod: Module, cls: ast.ClassDef, name: str, _seen: Optional[Set[int]] = None) -> Optional[Tuple[Module, FuncNode]]:
        _seen = _seen or set()
        if id(cls) in _seen:
            return None
        _seen.add(id(cls))
        for st in cls.body:
            if isinstance(st, (ast.FunctionDef, ast.AsyncFunctionDef)) and st.name == name:
                return mod, st
        for bm, bc in self.class_bases(mod, cls):
            r = self.find_method(bm, bc, name, _seen)
            if r:
                return r
        return None

    def enclosing_class(self, node: ast.AST) -> Optional[ast.ClassDef]:
        for a in ancestors(node):
            if isinstance(a, ast.ClassDef):
                return a
        return None

    # -- resolution ---------------------------------------------------------------------------
    def resolve_callee(self, mod: Module, site: ast.AST, callee: ast.AST, _depth: int = 0) -> Optional[Tuple[Module, ast.AST]]:
        """In-package function (or class) that `callee` denotes at `site`, else None."""
        if isinstance(callee, ast.Name):
            # closure / local nested def
            f = enclosing_func(site) if not isinstance(site, (ast.FunctionDef, ast.AsyncFunctionDef)) else site
            while f is not None:
                for n in body_walk(f):
                    if isinstance(n, (ast.FunctionDef, ast.AsyncFunctionDef)) and n.name == callee.id:
                        return mod, n
                f = enclosing_func(f)
            r = self.proj.resolve(mod, callee.id)
            if r and r[0] == "def":
                return r[1], r[2]
            return None
        if isinstance(callee, ast.Attribute):
            base = callee.value
            # super().m()
            if isinstance(base, ast.Call) and isinstance(base.func, ast.Name) and base.func.id == "super":
                cls = self.enclosing_class(site)
                if cls is not None:
                    for bm, bc in self.class_bases(mod, cls):
                        r2 = self.find_method(bm, bc, callee.attr)
                        if r2:
                            return r2
                return None
            if isinstance(base, ast.Name) and base.id in ("self", "cls"):
                cls = self.enclosing_class(site)
                if cls is not None:
                    r2 = self.find_method(mod, cls, callee.attr)
                    if r2:
                        return r2
            d = dotted(callee)
            if d:
                r = self.proj.resolve(mod, d)
                if r and r[0] == "def":
                    return r[1], r[2]
                # Class.method through an imported / local class
                head, _, meth = d.rpartition(".")
                r = self.proj.resolve(mod, head) if head else None
                if r and r[0] == "def" and isinstance(r[2], ast.ClassDef):
                    r2 = self.find_method(r[1], r[2], meth)
                    if r2:
                        return r2
            # receiver is a local annotated with an in-package class: `component: Component = ...`
            if isinstance(base, ast.Name):
                f = enclosing_func(site)
                if f is not None:
                    for n in body_walk(f):
                        if isinstance(n, ast.AnnAssign) and isinstance(n.target, ast.Name) and n.target.id == base.id:
                            ann = n.annotation.value if isinstance(n.annotation, ast.Subscript) else n.annotation
                            r = self.proj.resolve_expr(mod, ann)
                            if r and r[0] == "def" and isinstance(r[2], ast.ClassDef):
                                r2 = self.find_method(r[1], r[2], callee.attr)
                                if r2:
                                    return r2
            # receiver is a local bound to the result of an in-package function whose return annotation names an
            # in-package class: `cache = get_template_cache()` (-> LRUCache)
            if isinstance(base, ast.Name):
                f = enclosing_func(site)
                if f is not None:
                    for n in body_walk(f):
                        if isinstance(n, (ast.Assign, ast.AnnAssign)) and isinstance(n.value, ast.Call):
                            tg = n.targets if isinstance(n, ast.Assign) else [n.target]
                            if any(isinstance(t, ast.Name) and t.id == base.id for t in tg):
                                fn = self.resolve_callee(mod, n, n.value.func, _depth + 1) if _depth < 2 and isinstance(n.value.func, ast.Name) else None
                                if fn is not None and isinstance(fn[1], (ast.FunctionDef, ast.AsyncFunctionDef)) and fn[1].returns is not None:
                                    ann = fn[1].returns.value if isinstance(fn[1].returns, ast.Subscript) else fn[1].returns
                                    r = self.proj.resolve_expr(fn[0], ann)
                                    if r and r[0] == "def" and isinstance(r[2], ast.ClassDef):
                                        r2 = self.find_method(r[1], r[2], callee.attr)
                                        if r2:
                                            return r2
            # unique in-package method name (receiver type unknown; never for self/cls receivers)
            if callee.attr not in _GENERIC and not (isinstance(base, ast.Name) and base.id in ("self", "cls")):
                cands = self._methods_by_name.get(callee.attr, [])
                if len(cands) == 1:
                    return cands[0]
        return None

    def target_key(self, tgt: Tuple[Module, ast.AST]) -> Optional[str]:
        m, n = tgt
        if isinstance(n, ast.ClassDef):
            r = self.find_method(m, n, "__init__")
            if r:
                return fkey(r[0], r[1])
            r = self.find_method(m, n, "__post_init__")
            if r:
                return fkey(r[0], r[1])
            return None
        return fkey(m, n)

    def _add(self, a: str, b: str, site: Optional[ast.AST], kind: str) -> None:
        self.edges.setdefault(a, []).append((b, site, kind))
        self.rev.setdefault(b, []).append((a, site, kind))

    def _scan(self, k: str, m: Module, f: FuncNode) -> None:
        called_funcs: Set[int] = set()
        for n in body_walk(f):
            if isinstance(n, ast.Call):
                self.n_calls += 1
                called_funcs.add(id(n.func))
                tgt = self.resolve_callee(m, n, n.func)
                if tgt is not None:
                    tk = self.target_key(tgt)
                    if tk and tk in self.funcs:
                        self._add(k, tk, n, "call")
                        self.n_resolved += 1
                        continue
                self.unresolved.setdefault(k, []).append(n)
            elif isinstance(n, (ast.With, ast.AsyncWith)):
                pass
        # nested defs that are referenced (returned, stored, passed): may be called later by someone else
        for n in body_walk(f):
            if isinstance(n, (ast.FunctionDef, ast.AsyncFunctionDef)):
                self._add(k, fkey(m, n), n, "ref")
            elif isinstance(n, ast.Name) and isinstance(n.ctx, ast.Load) and id(n) not in called_funcs:
                r = self.proj.resolve(m, n.id)
                if r and r[0] == "def" and isinstance(r[2], (ast.FunctionDef, ast.AsyncFunctionDef)):
                    par = getattr(n, "parent", None)
                    if isinstance(par, ast.Call) and par.func is n:
                        continue
                    self._add(k, fkey(r[1], r[2]), n, "ref")

    # -- traversal ----------------------------------------------------------------------------
    def callees(self, k: str, kinds: Iterable[str] = ("call", "ref")) -> List[Tuple[str, Optional[ast.AST], str]]:
        ks = set(kinds)
        return [e for e in self.edges.get(k, []) if e[2] in ks]

    def callers(self, k: str, kinds: Iterable[str] = ("call",)) -> List[Tuple[str, Optional[ast.AST], str]]:
        ks = set(kinds)
        return [e for e in self.rev.get(k, []) if e[2] in ks]

    def reachable(self, entries: Iterable[str], kinds: Iterable[str] = ("call", "ref"), stop: Optional[Set[str]] = None) -> Dict[str, List[str]]:
        """Functions reachable from `entries`; value = one shortest call path (list of keys)."""
        ks = set(kinds)
        paths: Dict[str, List[str]] = {}
        todo: List[str] = []
        for e in entries:
            if e in self.funcs:
                paths[e] = [e]
                todo.append(e)
        while todo:
            k = todo.pop(0)
            if stop and k in stop:
                continue
            for b, _site, kind in self.edges.get(k, []):
                if kind in ks and b not in paths:
                    paths[b] = paths[k] + [b]
                    todo.append(b)
        return paths

    def key(self, mod: str, qual: str) -> str:
        m = self.proj.mod(mod)
        m.func(qual)
        return f"{m.name}:{qual}"
