"""Kind flow: which script kind ("js" / "css") the values held by a local can carry, and which kind a sink demands.

A small flow-insensitive, interprocedural (summary-based) abstract interpretation over one module. The abstract value
of an expression is a set of tokens: "js", "css" (a tag / URL / list of tags of that kind can be in it) and "P:<name>"
(whatever the enclosing function's parameter <name> carries - substituted at call sites).

Sources of a kind
  * a call of an in-package function whose parameter is annotated `ScriptType` yields the kind of the argument bound to
    it: a constant, or - for a variable - the constant the path condition at the call compares it with;
  * `<x>.render_js()` / `.render_css()` (django.forms.Media API, trusted base);
  * an in-package function's return value (per tuple position), from its summary.
Carriers: list / tuple / set displays, starred elements, comprehensions, `+`, conditional expressions, subscripts,
  `"".join(..)`, `.encode()` / `.decode()`, sorted / list / tuple / set / reversed, `.append` / `.extend` / `+=` on a local.
Opaque (no kind): constants, `json.dumps(..)` (serialised data is not a tag), everything not listed.

Sinks (what `sinks()` returns; the rule modules turn them into obligations)
  * `Media(js=X)` / `Media(css=Y)`;
  * an in-package call that passes a constant kind to a `ScriptType` parameter: every other argument;
  * an in-package call whose callee puts a parameter under a wire key that names one kind (a dict literal key such as
    "toLoadCssTags"): the argument bound to that parameter;
  * a value selected under a path condition that tests a module constant whose TEXT names one kind
    (`CSS_PLACEHOLDER_NAME_B in match[0]`), and a keyword argument bound to a callee parameter that the callee inserts
    at the position of exactly one kind - left to the rule modules (C08-S6), not done here.
"""
from __future__ import annotations

import ast
import re
from typing import Dict, FrozenSet, List, Optional, Set, Tuple

from .astq import params
from .callgraph import CallGraph
from .cfg import flatten_conj, path_conditions
from .source import AnalysisError, FuncNode, Module, Project, ancestors, body_walk, enclosing_func, enclosing_stmt, last_attr, norm, short

KINDS = ("js", "css")
Tok = FrozenSet[str]
EMPTY: Tok = frozenset()
PASS_THROUGH = {"sorted", "list", "tuple", "set", "reversed", "frozenset", "iter", "mark_safe", "str", "cast"}
PASS_METHODS = {"encode", "decode", "join", "copy", "strip"}
PASS_QUALIFIED = {"base64.b64encode", "b64encode", "base64.b64decode", "b64decode", "html.escape", "escape"}
OPAQUE_CALLS = {"json.dumps", "dumps"}


def wire_kind(text: str) -> Optional[str]:
    """The one kind a wire key / constant names ("toLoadCssTags" -> css), None if it names none or both."""
    low = text.lower()
    has = [k for k in KINDS if re.search(k, low)]
    return has[0] if len(has) == 1 else None


class Sink:
    def __init__(self, loc_node: ast.AST, func: FuncNode, what: str, want: str, got: Tok, expr: ast.AST):
        self.node, self.func, self.what, self.want, self.got, self.expr = loc_node, func, what, want, got, expr

    @property
    def ok(self) -> bool:
        return {t for t in self.got if not t.startswith("P:")} <= {self.want}

    @property
    def key(self) -> str:
        return f"{self.func.name}:{self.what}"


class KindFlow:
    def __init__(self, proj: Project, cg: CallGraph, mod: Module):
        self.proj, self.cg, self.mod = proj, cg, mod
        self._ret: Dict[int, List[Tok]] = {}
        self._busy: Set[int] = set()
        self._pk: Dict[int, Dict[str, str]] = {}
        self._nk: Dict[Tuple[int, str], Tok] = {}
        self._nbusy: Set[Tuple[int, str]] = set()
        self.n_eval = 0

    # -- helpers ----------------------------------------------------------------------------------
    def script_type_params(self, f: FuncNode) -> List[str]:
        out = []
        a = f.args
        for x in a.posonlyargs + a.args + a.kwonlyargs:
            if x.annotation is not None and "ScriptType" in norm(x.annotation) and "Tuple" not in norm(x.annotation) and "List" not in norm(x.annotation):
                out.append(x.arg)
        return out

    def callee(self, site: ast.Call) -> Optional[FuncNode]:
        r = self.cg.resolve_callee(self.mod, site, site.func)
        if r is not None and isinstance(r[1], (ast.FunctionDef, ast.AsyncFunctionDef)) and r[0] is self.mod:
            return r[1]
        return None

    @staticmethod
    def bind(call: ast.Call, f: FuncNode) -> Dict[str, ast.expr]:
        ps = params(f)
        if ps and ps[0] in ("self", "cls") and isinstance(call.func, ast.Attribute):
            ps = ps[1:]
        out: Dict[str, ast.expr] = {}
        for i, a in enumerate(call.args):
            if isinstance(a, ast.Starred):
                break
            if i < len(ps):
                out[ps[i]] = a
        for k in call.keywords:
            if k.arg is not None:
                out[k.arg] = k.value
        return out

    def const_kind(self, e: ast.expr, at: ast.AST) -> Tok:
        """Kind denoted by expression `e` used as a ScriptType value at `at`."""
        if isinstance(e, ast.Constant) and e.value in KINDS:
            return frozenset([e.value])
        if isinstance(e, ast.Name):
            got: Set[str] = set()
            excluded: Set[str] = set()
            for c, pol in flatten_conj(path_conditions(at)):
                if isinstance(c, ast.Compare) and len(c.ops) == 1 and isinstance(c.ops[0], (ast.Eq, ast.NotEq)):
                    l, r = c.left, c.comparators[0]
                    if isinstance(r, ast.Name) and isinstance(l, ast.Constant):
                        l, r = r, l
                    if isinstance(l, ast.Name) and l.id == e.id and isinstance(r, ast.Constant) and r.value in KINDS:
                        positive = pol == isinstance(c.ops[0], ast.Eq)
                        (got if positive else excluded).add(r.value)
            if got:
                return frozenset(got)
            host = enclosing_func(at)
            if host is not None and not excluded and e.id in self.script_type_params(host):
                return frozenset([f"P:{e.id}"])
            return frozenset(k for k in KINDS if k not in excluded)
        return frozenset(KINDS)

    # -- name bindings ----------------------------------------------------------------------------
    def _scopes(self, at: ast.AST) -> List[FuncNode]:
        out = []
        f = at if isinstance(at, (ast.FunctionDef, ast.AsyncFunctionDef)) else enclosing_func(at)
        while f is not None:
            out.append(f)
            f = enclosing_func(f)
        return out

    def name_kind(self, name: str, at: ast.AST, depth: int, comp_env: Dict[str, Tok]) -> Tok:
        if name in comp_env:
            return comp_env[name]
        scopes = self._scopes(at)
        mk = (id(scopes[0]) if scopes else 0, name)
        if mk in self._nk:
            return self._nk[mk]
        if mk in self._nbusy:
            return EMPTY  # a self-referential binding (`x = f(x)`) adds nothing the other bindings do not add
        self._nbusy.add(mk)
        try:
            r = self._name_kind(name, at, depth, scopes)
        finally:
            self._nbusy.discard(mk)
        if not self._nbusy:
            self._nk[mk] = r
        return r

    def _name_kind(self, name: str, at: ast.AST, depth: int, scopes: List[FuncNode]) -> Tok:
        for f in scopes:
            if name in params(f):
                return frozenset([f"P:{name}"]) if f is scopes[0] else EMPTY
            out: Set[str] = set()
            found = False
            for n in ast.walk(f):
                if isinstance(n, (ast.Assign, ast.AnnAssign, ast.AugAssign, ast.For, ast.NamedExpr)):
                    tg = n.targets if isinstance(n, ast.Assign) else [n.target]
                    val = n.iter if isinstance(n, ast.For) else n.value
                    for t in tg:
                        if isinstance(t, ast.Name) and t.id == name and val is not None:
                            found = True
                            out |= self.kind(val, depth + 1, {})
                        elif isinstance(t, (ast.Tuple, ast.List)):
                            for i, el in enumerate(t.elts):
                                if isinstance(el, ast.Name) and el.id == name and val is not None:
                                    found = True
                                    out |= self.kind_at(val, i, len(t.elts), depth + 1)
                elif isinstance(n, ast.Call) and isinstance(n.func, ast.Attribute) and isinstance(n.func.value, ast.Name) and n.func.value.id == name and n.func.attr in ("append", "extend", "add", "insert", "update") and n.args:
                    if enclosing_func(n) is f or f in list(ancestors(n)):
                        out |= self.kind(n.args[-1], depth + 1, {})
            if found:
                return frozenset(out)
        return EMPTY

    def kind_at(self, val: ast.expr, i: int, n: int, depth: int) -> Tok:
        """Kind of position i of an n-tuple value."""
        if isinstance(val, (ast.Tuple, ast.List)) and len(val.elts) == n and not any(isinstance(e, ast.Starred) for e in val.elts):
            return self.kind(val.elts[i], depth, {})
        if isinstance(val, ast.Call):
            f = self.callee(val)
            if f is not None:
                ret = self.returns(f)
                if len(ret) == n:
                    return self.subst(ret[i], val, f, depth)
                return self.subst(frozenset().union(*ret) if ret else EMPTY, val, f, depth)
        return self.kind(val, depth, {})

    # -- summaries --------------------------------------------------------------------------------
    def returns(self, f: FuncNode) -> List[Tok]:
        """Per-position tokens of what `f` returns (one position when the returns are not same-length tuples)."""
        if id(f) in self._ret:
            return self._ret[id(f)]
        if id(f) in self._busy:
            return [EMPTY]
        self._busy.add(id(f))
        rets = [r.value for r in body_walk(f) if isinstance(r, ast.Return) and r.value is not None and not (isinstance(r.value, ast.Constant) and r.value.value is None)]
        res: List[Tok]
        tup = [r for r in rets if isinstance(r, ast.Tuple)]
        if rets and len(tup) == len(rets) and len({len(t.elts) for t in tup}) == 1:
            n = len(tup[0].elts)
            res = [frozenset().union(*[self.kind(t.elts[i], 0, {}) for t in tup]) for i in range(n)]
        else:
            res = [frozenset().union(*[self.kind(r, 0, {}) for r in rets]) if rets else EMPTY]
        self._busy.discard(id(f))
        self._ret[id(f)] = res
        return res

    def subst(self, toks: Tok, call: ast.Call, f: FuncNode, depth: int) -> Tok:
        b = self.bind(call, f)
        out: Set[str] = set()
        for t in toks:
            if t.startswith("P:"):
                a = b.get(t[2:])
                if a is not None:
                    if t[2:] in self.script_type_params(f):
                        out |= self.const_kind(a, call)
                    else:
                        out |= self.kind(a, depth + 1, {})
            else:
                out.add(t)
        return frozenset(out)

    # -- expressions ------------------------------------------------------------------------------
    def kind(self, e: Optional[ast.AST], depth: int = 0, comp_env: Optional[Dict[str, Tok]] = None) -> Tok:
        self.n_eval += 1
        comp_env = comp_env or {}
        if e is None or depth > 40:
            return EMPTY
        if isinstance(e, ast.Constant):
            return EMPTY
        if isinstance(e, ast.Name):
            return self.name_kind(e.id, e, depth, comp_env)
        if isinstance(e, ast.Starred):
            return self.kind(e.value, depth, comp_env)
        if isinstance(e, (ast.List, ast.Tuple, ast.Set)):
            return frozenset().union(*[self.kind(x, depth, comp_env) for x in e.elts]) if e.elts else EMPTY
        if isinstance(e, ast.Dict):
            return frozenset().union(*[self.kind(x, depth, comp_env) for x in e.values]) if e.values else EMPTY
        if isinstance(e, ast.IfExp):
            return self.kind(e.body, depth, comp_env) | self.kind(e.orelse, depth, comp_env)
        if isinstance(e, ast.BoolOp):
            return frozenset().union(*[self.kind(x, depth, comp_env) for x in e.values])
        if isinstance(e, ast.BinOp):
            return self.kind(e.left, depth, comp_env) | self.kind(e.right, depth, comp_env)
        if isinstance(e, ast.Subscript):
            return self.kind(e.value, depth, comp_env)
        if isinstance(e, ast.JoinedStr):
            return frozenset().union(*[self.kind(v.value, depth, comp_env) for v in e.values if isinstance(v, ast.FormattedValue)]) if e.values else EMPTY
        if isinstance(e, (ast.ListComp, ast.SetComp, ast.GeneratorExp, ast.DictComp)):
            env = dict(comp_env)
            for g in e.generators:
                k = self.kind(g.iter, depth, env)
                for t in ast.walk(g.target):
                    if isinstance(t, ast.Name):
                        env[t.id] = k
            return self.kind(e.value if isinstance(e, ast.DictComp) else e.elt, depth, env)
        if isinstance(e, ast.NamedExpr):
            return self.kind(e.value, depth, comp_env)
        if isinstance(e, ast.Call):
            nm = norm(e.func)
            la = last_attr(e.func)
            if nm in OPAQUE_CALLS:
                return EMPTY
            if isinstance(e.func, ast.Attribute) and la in ("render_js", "render_css"):
                return frozenset([la[len("render_"):]])
            f = self.callee(e)
            if f is not None:
                ret = self.returns(f)
                r0 = self.subst(frozenset().union(*ret) if ret else EMPTY, e, f, depth)
                b = self.bind(e, f)
                for sp in self.script_type_params(f):
                    if sp in b:
                        r0 |= self.const_kind(b[sp], e)
                return r0
            if nm in PASS_QUALIFIED or (isinstance(e.func, ast.Name) and la in PASS_THROUGH):
                return frozenset().union(*[self.kind(a, depth, comp_env) for a in e.args]) if e.args else EMPTY
            if isinstance(e.func, ast.Attribute) and la in PASS_METHODS:
                r = self.kind(e.func.value, depth, comp_env)
                for a in e.args:
                    r |= self.kind(a, depth, comp_env)
                return r
            return EMPTY
        return EMPTY

    # -- what a callee demands of a parameter -----------------------------------------------------
    def param_wire_kinds(self, f: FuncNode) -> Dict[str, str]:
        """{param: kind} for parameters that `f` places under a wire key naming exactly one kind."""
        if id(f) in self._pk:
            return self._pk[id(f)]
        out: Dict[str, str] = {}
        for d in [x for x in ast.walk(f) if isinstance(x, ast.Dict)]:
            for k, v in zip(d.keys, d.values):
                if isinstance(k, ast.Constant) and isinstance(k.value, str) and v is not None:
                    wk = wire_kind(k.value)
                    if wk is None:
                        continue
                    for t in self.kind(v, 0, {}):
                        if t.startswith("P:"):
                            out[t[2:]] = wk if out.get(t[2:], wk) == wk else "?"
        self._pk[id(f)] = out
        return out

    # -- sinks ------------------------------------------------------------------------------------
    def sinks(self, f: FuncNode) -> List[Sink]:
        out: List[Sink] = []
        for c in [x for x in ast.walk(f) if isinstance(x, ast.Call)]:
            host = enclosing_func(c) or f
            if last_attr(c.func) == "Media":
                for k in c.keywords:
                    if k.arg in KINDS:
                        out.append(Sink(k.value, host, f"Media({k.arg}=..)", k.arg, self.kind(k.value, 0, {}), k.value))
                continue
            g = self.callee(c)
            if g is None:
                continue
            b = self.bind(c, g)
            stp = self.script_type_params(g)
            for sp in stp:
                a = b.get(sp)
                if isinstance(a, ast.Constant) and a.value in KINDS:
                    for pn, av in b.items():
                        if pn != sp:
                            got = self.kind(av, 0, {})
                            if got:
                                out.append(Sink(av, host, f"{g.name}({a.value!r}, {pn}=..)", a.value, got, av))
            demanded = {pn: wk for pn, wk in self.param_wire_kinds(g).items() if wk != "?"}
            # a keyword that names exactly one kind is part of the callee's interface: it receives that kind
            for k in c.keywords:
                if k.arg is not None and wire_kind(k.arg) is not None and k.arg in params(g):
                    demanded.setdefault(k.arg, wire_kind(k.arg))
            for pn, wk in sorted(demanded.items()):
                if pn in b:
                    out.append(Sink(b[pn], host, f"{g.name}({pn}=..)", wk, self.kind(b[pn], 0, {}), b[pn]))
        # a value chosen under a test of a module constant whose TEXT names one kind (`CSS_PLACEHOLDER_NAME_B in match[0]`)
        for st in [x for x in ast.walk(f) if isinstance(x, (ast.Assign, ast.Return)) and x.value is not None]:
            for cnd, pol in flatten_conj(path_conditions(st)):
                if not (pol and isinstance(cnd, ast.Compare) and len(cnd.ops) == 1 and isinstance(cnd.ops[0], (ast.In, ast.Eq))):
                    continue
                for side in (cnd.left, cnd.comparators[0]):
                    if isinstance(side, ast.Name) and self.proj.resolve(self.mod, side.id) is not None and enclosing_func(side) is not None and side.id not in {n.id for n in ast.walk(enclosing_func(side)) if isinstance(n, ast.Name) and isinstance(n.ctx, ast.Store)}:
                        okf, v = self.proj.try_fold(self.mod, side)
                        if okf and isinstance(v, (str, bytes)):
                            wk = wire_kind(v.decode("latin-1") if isinstance(v, bytes) else v)
                            got = self.kind(st.value, 0, {})
                            if wk is not None and got:
                                out.append(Sink(st, enclosing_func(st) or f, f"under `{short(cnd, 50)}`: {short(st, 50)}", wk, got, st.value))
        return out

    def unpacked_unused(self, f: FuncNode) -> List[Tuple[ast.Name, Tok]]:
        """Names bound by unpacking a kind-carrying in-package call that are never read afterwards."""
        out = []
        loads = {n.id for n in ast.walk(f) if isinstance(n, ast.Name) and isinstance(n.ctx, ast.Load)}
        for st in [x for x in ast.walk(f) if isinstance(x, ast.Assign)]:
            for t in st.targets:
                if isinstance(t, (ast.Tuple, ast.List)) and isinstance(st.value, ast.Call) and self.callee(st.value) is not None:
                    for i, el in enumerate(t.elts):
                        if isinstance(el, ast.Name):
                            k = self.kind_at(st.value, i, len(t.elts), 0)
                            if k and el.id not in loads:
                                out.append((el, k))
        return out
