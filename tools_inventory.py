#!/venv/bin/python
"""Regenerate the rule inventory of DESIGN.md section 8.1 from the evidence files (maintenance tool, not a check)."""
import json, os, re
V = os.path.dirname(os.path.abspath(__file__))
ids = ["C01"] + [f"C{n:02d}" for n in range(3, 20)]
out = []
total_rules = total_inst = 0
for pid in ids:
    d = json.load(open(os.path.join(V, "evidence", f"{pid}.json")))
    rules = d["coverage"]["rules"]
    def key(r):
        m = re.match(r"C\d\d-S(\d+)(.*)", r)
        return (int(m.group(1)) if m else 99, m.group(2) if m else r)
    parts = []
    for rid in sorted((r for r in rules if "rule" in rules[r]), key=key):
        txt = " ".join(rules[rid]["rule"].split())
        parts.append(f"`{rid.split('-', 1)[1]}` {txt[:110]}{'…' if len(txt) > 110 else ''}")
        total_rules += 1
        total_inst += rules[rid].get("instances", 0)
    out.append(f"**{pid}** — " + "; ".join(parts))
block = "\n\n".join(out) + "\n\n"
p = os.path.join(V, "DESIGN.md")
s = open(p).read()
a = s.index("**C01** — ")
b = s.index("### 8.2 Defects")
s = s[:a] + block + s[b:]
open(p, "w").write(s)
print("rules", total_rules, "instances", total_inst)
